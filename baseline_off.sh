#!/bin/sh
# runs the repository's own test suite with the guard OFF (no build tag) using the default
# toolchain, and compares the passing tests with BASELINE.json's stable_pass list.
cd /repo || exit 2
export GOFLAGS=-mod=mod GOPROXY=off GOSUMDB=off
go test -json -vet=off -count=1 -timeout 25m ./... > /tmp/verif-baseline-off.json 2>/dev/null
python3 - <<'PY'
import json,sys
passed=set()
for l in open('/tmp/verif-baseline-off.json'):
    try: e=json.loads(l)
    except Exception: continue
    if e.get('Action')=='pass' and e.get('Test'):
        passed.add(e['Package']+'::'+e['Test'])
want=set(json.load(open('/root/.vp/BASELINE.json'))['stable_pass'])
missing=sorted(want-passed)
print('baseline stable_pass=%d passed_now=%d missing=%d'%(len(want),len(passed&want),len(missing)))
for m in missing[:20]: print('MISSING',m)
sys.exit(1 if missing else 0)
PY
rc=$?
rm -f /tmp/verif-baseline-off.json
exit $rc
