package simcheck

import (
	"go/token"

	"github.com/cosmos72/gomacro/fast"

	"verif/sim"
)

// The /repo hooks are process-global function variables read by (race-instrumented)
// interpreter code. They are set exactly once, at process start, to the dispatchers below;
// what a dispatcher does is decided by hs, which is only written between runs.
type hookState struct {
	S               *sim.Sched
	StmtYield       bool
	ProtoYield      bool
	SkipCreateYield bool
	Stmt            func(env *fast.Env, pos token.Pos)
	Spin            func(env *fast.Env) // trailing spinInterrupt pseudo-statement executed
	EnvAlloc        func(run *fast.Run, env *fast.Env, kind int)
	EnvFree         func(run *fast.Run, env *fast.Env)
	EnvRecycle      func(run *fast.Run, env *fast.Env, n int) bool
	GoID            func(goid uintptr) uintptr
	Yield           func(site int, goid uintptr)
	Growth          func() (int, int, bool)
}

var hs hookState

func init() {
	fast.VerifHooks.Stmt = hStmt
	fast.VerifHooks.EnvAlloc = hEnvAlloc
	fast.VerifHooks.EnvFree = hEnvFree
	fast.VerifHooks.EnvRecycle = hEnvRecycle
	fast.VerifHooks.GoID = hGoID
	fast.VerifHooks.Yield = hYield
	fast.VerifHooks.GoSpawn = hGoSpawn
	fast.VerifHooks.GoStart = hGoStart
	fast.VerifHooks.GoExit = hGoExit
	fast.VerifHooks.Growth = hGrowth
}

//go:norace
func hStmt(env *fast.Env, pos token.Pos) {
	if pos == fast.VerifPosSpin {
		// not a statement of the program: only budget watchdogs look at it
		if f := hs.Spin; f != nil {
			f(env)
		}
		return
	}
	if f := hs.Stmt; f != nil {
		f(env, pos)
	}
	if s := hs.S; s != nil && hs.StmtYield {
		s.Yield(sim.SiteStmt, false)
	}
}

//go:norace
func hEnvAlloc(run *fast.Run, env *fast.Env, kind int) {
	if f := hs.EnvAlloc; f != nil {
		f(run, env, kind)
	}
}

//go:norace
func hEnvFree(run *fast.Run, env *fast.Env) {
	if f := hs.EnvFree; f != nil {
		f(run, env)
	}
}

//go:norace
func hEnvRecycle(run *fast.Run, env *fast.Env, n int) bool {
	if f := hs.EnvRecycle; f != nil {
		return f(run, env, n)
	}
	return false
}

//go:norace
func hGoID(goid uintptr) uintptr {
	if f := hs.GoID; f != nil {
		return f(goid)
	}
	return goid
}

//go:norace
func hYield(site int, goid uintptr) {
	if f := hs.Yield; f != nil {
		f(site, goid)
	}
	if s := hs.S; s != nil && hs.ProtoYield {
		if site == fast.VerifSiteRunCreate && hs.SkipCreateYield {
			// with real identities, whether a registry entry exists depends on the Go
			// runtime's recycling of g structs: not a decision point, or runs do not replay
			return
		}
		s.Yield(sim.SiteProto+site, false)
	}
}

//go:norace
func hGoSpawn() uintptr {
	if s := hs.S; s != nil {
		return s.Spawn()
	}
	return 0
}

//go:norace
func hGoStart(tok uintptr) {
	if s := hs.S; s != nil {
		s.Start(tok)
	}
}

//go:norace
func hGoExit(tok uintptr, v interface{}) {
	if s := hs.S; s != nil {
		s.Exit(tok, v)
		return
	}
	if v != nil {
		panic(v)
	}
}

//go:norace
func hGrowth() (int, int, bool) {
	if f := hs.Growth; f != nil {
		return f()
	}
	return 0, 0, false
}
