package simcheck

import (
	"fmt"
	"strings"
	"testing"
	"time"

	"verif/sim"
	"verif/twin/c10a"
	"verif/twin/c10b"
	"verif/twin/c10c"
	"verif/twin/c10d"
	"verif/twin/c10e"
	"verif/twin/c10f"
	"verif/twin/c10g"
)

var c10Specs = []*twinSpec{
	{Name: "c10a-fanout", Source: c10a.Source, Native: c10a.Main, Determinate: "="},
	{Name: "c10b-pipeline", Source: c10b.Source, Native: c10b.Main, Determinate: "all"},
	{Name: "c10c-opsoup", Source: c10c.Source, Native: c10c.Main, Model: true},
	{Name: "c10d-shared-closures", Source: c10d.Source, Native: c10d.Main, Determinate: "="},
	{Name: "c10e-timeouts", Source: c10e.Source, Native: c10e.Main, Determinate: "all"},
	{Name: "c10f-select-kinds", Source: c10f.Source, Native: c10f.Main, Determinate: "all"},
	{Name: "c10g-primitives", Source: c10g.Source, Native: c10g.Main, Determinate: "="},
}

func init() {
	register(&Prop{
		ID:    "C10",
		Level: "exploration",
		Race:  true,
		Rule: "one run = one of 7 templates (drawn: fan-out, pipeline, channel-operation soup checked by the channel model, closures shared under a lock, time-outs, every select shape, sync primitives and go-statement argument evaluation) + one generated per-task behaviour + one seeded schedule; executed natively and interpreted from the same choice list. " +
			"non-trivial = at least 2 tasks and at least 1 context switch in the interpreted run; distinct = distinct (template, schedule hash = sequence of (task, yield site, quantum) decisions, interpreted event log)",
		Runs: func(tier string) int {
			if tier == "thorough" {
				return 300000
			}
			return 2000
		},
		WallBudget: func(tier string) time.Duration {
			if tier == "thorough" {
				return 35 * time.Minute
			}
			return 100 * time.Second
		},
		Run:        runC10,
		FaultKinds: []string{"starvation_bias_schedule", "long_quantum_schedule", "deadlock_outcome", "steplimit_outcome"},
		ProbeNames: []string{"select_multi_ready", "select_default_taken", "recv_on_closed", "blocked_then_woken", "mode_lockstep", "mode_stmt", "model_histories"},
		RealVsStub: []string{
			"real: gomacro fast interpreter (Comp.Go, channel.go, select.go, registry, frame pools), reflect channel ops, Go runtime channels/select, sync.WaitGroup",
			"real: native twin = the same template source compiled by the Go toolchain",
			"stub: which goroutine runs next (seeded parking scheduler inside a testing/synctest bubble)",
			"stub: wall clock (synctest fake clock)",
			"stub: sync.Mutex.Lock (TryLock + yield loop in a compiled helper); the locker handed to sync.NewCond and the readers/writer lock (hook.Mutex, hook.RWMutex: same state machine, waiters park in the scheduler)",
			"real: sync/atomic on captured variables, sync.Cond, sync.Once, sync.WaitGroup, context cancellation and deadlines, time.Timer / Ticker / AfterFunc on the fake clock",
		},
		Assumptions: []string{
			"interleavings are explored at statement granularity (interpreter) / communication granularity (lockstep); finer preemption is only race-detected",
			"Go's own choice among several ready select cases is not seedable: the model accepts any ready case and follows the observed one",
			"templates are fixed reviewed programs; program variety comes from seeded per-task behaviour, not from syntax generation",
		},
	})
}

func runC10(t *testing.T, ch *sim.Choices, tier string) (o Outcome) {
	gen := ch.Stream("gen")
	spec := c10Specs[gen.Draw(len(c10Specs))]
	return runTwinConcurrent(t, ch, gen, spec, "Main()")
}

// runTwinConcurrent is shared by C10, C11 and C33.
func runTwinConcurrent(t *testing.T, ch *sim.Choices, gen *sim.Stream, spec *twinSpec, entry string) (o Outcome) {
	mode := gen.Draw(2) // 0 lockstep, 1 statement-level yields
	cfgN := sim.SchedConfig{MaxSteps: 400, QuantumMax: 1}
	cfgI := cfgN
	if mode == 1 {
		cfgI.StmtYield = true
		cfgI.MaxSteps = 1500
		cfgI.QuantumMax = []int{1, 2, 4, 16}[gen.Draw(4)]
		o.probe("mode_stmt", 1)
	} else {
		o.probe("mode_lockstep", 1)
	}
	bias := []int{0, 0, 2, 8}[gen.Draw(4)]
	cfgN.Bias, cfgI.Bias = bias, bias
	if bias > 0 {
		o.fault("starvation_bias_schedule", 1)
	}
	if cfgI.QuantumMax > 4 {
		o.fault("long_quantum_schedule", 1)
	}
	chN := ch.Fork()
	chI := ch.Fork()
	nat := runConcurrent(t, chN, cfgN, false, spec, entry, nil)
	itp := runConcurrent(t, chI, cfgI, true, spec, entry, nil)
	o.Steps = itp.Steps
	o.SimNanos = itp.SimNanos + nat.SimNanos
	o.EventHash = sim.Mix(nat.hashAll(), itp.hashAll())
	o.Unseeded = sim.Mix(selectPicks(nat), selectPicks(itp))
	o.Hash = sim.Mix(sim.HashString(spec.Name), itp.SchedHash, hashStrings(0, flatLogs(itp.Logs, false, "")))
	o.Nontrivial = len(itp.Logs) >= 2 && itp.Switches >= 1
	o.Sample = map[string]interface{}{"template": spec.Name, "mode": []string{"lockstep", "stmt"}[mode], "bias": bias, "quantum_max": cfgI.QuantumMax,
		"schedule_prefix": fmt.Sprint(itp.Sample), "interpreted": itp.summary(24), "native": nat.summary(8)}
	if itp.Outcome == "deadlock" {
		o.fault("deadlock_outcome", 1)
	}
	if itp.Outcome == "steplimit" {
		o.fault("steplimit_outcome", 1)
	}
	if itp.InterpErr != "" {
		o.fail("interp-error", normKey(spec.Name, "load"), itp.InterpErr+"\n"+itp.Output)
		return
	}
	if len(nat.Panics) > 0 {
		panic(sim.HarnessFault{Msg: fmt.Sprintf("template %s: native twin panicked: %v", spec.Name, nat.Panics)})
	}
	if nat.Outcome == "steplimit" {
		panic(sim.HarnessFault{Msg: fmt.Sprintf("template %s: native twin hit the step limit", spec.Name)})
	}
	if len(itp.Panics) > 0 {
		for k, v := range itp.Panics {
			o.fail("interp-panic", normKey(spec.Name, v), fmt.Sprintf("task %s of the interpreted run panicked: %s (native twin did not)\n%s", k, v, itp.Output))
			return
		}
	}
	if spec.Model {
		o.probe("model_histories", 1)
		hN := &sim.ChanHistory{Released: nat.Released, Logs: nat.Logs, Blocked: nat.blockedSet()}
		if rej, _ := sim.CheckChanHistory(hN); rej != nil {
			panic(sim.HarnessFault{Msg: fmt.Sprintf("channel model rejects the history produced by compiled Go (%s): %s\n%v", spec.Name, rej.Error(), nat.summary(200))})
		}
		if mode == 1 {
			// statement-level yields: the step-synchronous model does not apply; check
			// conservation over the per-task histories instead
			if key, detail := checkConservation(itp); key != "" {
				o.fail("conservation", normKey(spec.Name, key), "the interpreted history breaks a conservation law of channels: "+detail+"\n"+joinLines(itp.summary(200)))
				return
			}
			if key, detail := checkConservation(nat); key != "" {
				panic(sim.HarnessFault{Msg: "conservation check rejects compiled Go: " + key + " " + detail})
			}
		}
		if mode == 0 {
			hI := &sim.ChanHistory{Released: itp.Released, Logs: itp.Logs, Blocked: itp.blockedSet()}
			rej, st := sim.CheckChanHistory(hI)
			o.probe("select_multi_ready", st["select_multi_ready"])
			o.probe("select_default_taken", st["default_taken"])
			o.probe("recv_on_closed", st["recv_on_closed"])
			o.probe("blocked_then_woken", st["woken"])
			if rej != nil {
				o.fail("model-reject", normKey(spec.Name, rej.Key), "the interpreted history is not one compiled Go can produce: "+rej.Detail+"\n"+joinLines(itp.summary(200)))
				return
			}
		}
	}
	// outcome comparison: completion/deadlock is schedule independent only for determinate templates
	if spec.Determinate != "" {
		// the native twin must itself be schedule independent: run it under a second schedule
		nat2 := runNativeResched(t, ch, chN, cfgN, spec, entry)
		a, b := flatLogs(nat.Logs, false, detFilter(spec)), flatLogs(nat2.Logs, false, detFilter(spec))
		if i, x, y := firstDiff(a, b); i >= 0 || nat.Outcome != nat2.Outcome {
			panic(sim.HarnessFault{Msg: fmt.Sprintf("template %s is not determinate: native runs differ under two schedules: %q vs %q (%s/%s)", spec.Name, x, y, nat.Outcome, nat2.Outcome)})
		}
		if itp.Outcome != nat.Outcome {
			o.fail("outcome-mismatch", normKey(spec.Name, itp.Outcome, nat.Outcome), fmt.Sprintf("interpreted run ended %s %v, compiled Go ended %s %v\n%s", itp.Outcome, itp.EndState, nat.Outcome, nat.EndState, joinLines(itp.summary(60))))
			return
		}
		c := flatLogs(itp.Logs, false, detFilter(spec))
		if i, x, y := firstDiff(c, a); i >= 0 {
			o.fail("twin-mismatch", normKey(spec.Name, x, y), fmt.Sprintf("schedule-independent observation #%d differs: interpreted %q, compiled Go %q\n%s", i, x, y, joinLines(itp.summary(60))))
			return
		}
	}
	if mode == 0 && !spec.Model {
		// lockstep: same schedule list => identical global histories, stamps included
		a, b := flatLogs(itp.Logs, true, ""), flatLogs(nat.Logs, true, "")
		if i, x, y := firstDiff(a, b); i >= 0 || itp.Outcome != nat.Outcome || fmt.Sprint(itp.EndState) != fmt.Sprint(nat.EndState) {
			o.fail("lockstep-mismatch", normKey(spec.Name, stripStamp(x), stripStamp(y)), fmt.Sprintf("under the same schedule event #%d differs: interpreted %q, compiled Go %q; outcomes %s %v / %s %v\n%s", i, x, y, itp.Outcome, itp.EndState, nat.Outcome, nat.EndState, joinLines(itp.summary(60))))
			return
		}
	}
	return
}

func detFilter(spec *twinSpec) string {
	if spec.Determinate == "all" {
		return ""
	}
	return spec.Determinate
}

// runNativeResched re-runs the native twin with the same task behaviour but another schedule.
func runNativeResched(t *testing.T, ch *sim.Choices, first *sim.Choices, cfg sim.SchedConfig, spec *twinSpec, entry string) *concRun {
	tr := first.Trace()
	in := map[string][]uint32{}
	for k, v := range tr {
		if k != "sched" {
			in[k] = v
		}
	}
	// schedule: derived from the run seed, different from the first one
	alt := sim.NewExplore(sim.Mix(ch.Seed, 0xa17))
	s := alt.Stream("sched")
	var sched []uint32
	for i := 0; i < cfg.MaxSteps*2; i++ {
		s.Draw(1 << 30)
	}
	sched = s.Out
	in["sched"] = sched
	return runConcurrent(t, sim.NewReplay(ch.Seed, in), cfg, false, spec, entry, nil)
}

func joinLines(l []string) string {
	out := ""
	for _, s := range l {
		out += s + "\n"
	}
	return out
}

// selectPicks digests which case every select took (0 if the run had no select).
func selectPicks(r *concRun) uint64 {
	h := uint64(0)
	for _, e := range flatLogs(r.Logs, false, "") {
		if i := strings.Index(e, ": post sel "); i >= 0 {
			f := strings.Fields(e[i+len(": post sel "):])
			h = sim.Mix(h, sim.HashString(e[:i]), sim.HashString(f[0]))
		}
	}
	return h
}

// checkConservation: every value received was sent on that channel and is received at most
// once; ok == false is only seen on a channel that was closed; a task never completes an
// operation it did not declare. (Values are unique by construction: task*1000+seq.)
func checkConservation(r *concRun) (key, detail string) {
	sent := map[string]bool{}   // "cid v"
	closed := map[string]bool{} // cid
	type rcv struct{ task, cid, v, ok string }
	var recvs []rcv
	for task, log := range r.Logs {
		var pre []string
		for _, e := range log {
			f := strings.Fields(stripStamp(e))
			if len(f) < 2 {
				continue
			}
			switch f[0] {
			case "pre":
				pre = f
			case "post":
				if pre == nil || pre[1] != f[1] {
					return "completion-without-declaration", fmt.Sprintf("task %s: %q", task, e)
				}
				switch f[1] {
				case "send":
					sent[pre[2]+" "+pre[3]] = true
				case "close":
					closed[pre[2]] = true
				case "recv":
					recvs = append(recvs, rcv{task, f[2], f[3], f[4]})
				case "sel":
					// locate the chosen case in the declaration
					idx := atoiSafe(f[2])
					i, k := 2, 0
					for i < len(pre) {
						switch pre[i] {
						case "r":
							if k == idx && len(f) >= 5 {
								recvs = append(recvs, rcv{task, pre[i+1], f[3], f[4]})
							}
							i += 2
						case "s":
							if k == idx {
								sent[pre[i+1]+" "+pre[i+2]] = true
							}
							i += 3
						default:
							i++
						}
						k++
					}
				}
				pre = nil
			}
		}
		// a declared operation that never completed (blocked at the end) may still have
		// handed its value over: a blocked sender's value can be received by someone else
		if pre != nil {
			switch pre[1] {
			case "send":
				sent[pre[2]+" "+pre[3]] = true
			case "sel":
				for i := 2; i < len(pre); {
					switch pre[i] {
					case "r":
						i += 2
					case "s":
						sent[pre[i+1]+" "+pre[i+2]] = true
						i += 3
					default:
						i++
					}
				}
			case "close":
				closed[pre[2]] = true
			}
		}
	}
	seen := map[string]string{}
	for _, x := range recvs {
		switch x.ok {
		case "false":
			if !closed[x.cid] {
				return "recv-not-ok-on-open-channel", fmt.Sprintf("task %s received ok=false on channel %s, which is never closed", x.task, x.cid)
			}
		case "true", "_":
			if x.v == "_" {
				continue
			}
			if x.ok == "_" && x.v == "0" && closed[x.cid] {
				continue // zero value from a closed channel, ok not bound
			}
			if !sent[x.cid+" "+x.v] {
				return "received-value-never-sent", fmt.Sprintf("task %s received %s on channel %s, which nobody sent there", x.task, x.v, x.cid)
			}
			if prev, dup := seen[x.cid+" "+x.v]; dup {
				return "value-received-twice", fmt.Sprintf("value %s on channel %s was received by %s and by %s", x.v, x.cid, prev, x.task)
			}
			seen[x.cid+" "+x.v] = x.task
		}
	}
	return "", ""
}

func atoiSafe(s string) int {
	n := 0
	for i := 0; i < len(s); i++ {
		if s[i] < '0' || s[i] > '9' {
			return -1
		}
		n = n*10 + int(s[i]-'0')
	}
	return n
}
