package simcheck

import (
	"bytes"
	"fmt"
	"reflect"
	"strings"

	"github.com/cosmos72/gomacro/fast"

	"verif/hook"
	"verif/sim"
)

// single-task executions (no scheduler): one goroutine, decisions from one choice stream.

type singleRun struct {
	Log         []string
	Escaped     string // formatted value of a panic escaping the entry point ("" if none)
	NChoose     int
	NFault      int
	Output      string
	LoadErr     string
	FaultHit    bool
	FaultSite   string
	FaultLogLen int // number of events logged before the fault fired
}

type injectedPanic struct {
	Tag string
}

func (p injectedPanic) String() string { return "injected(" + p.Tag + ")" }

func fmtPanic(r interface{}) string {
	if r == nil {
		return ""
	}
	switch x := r.(type) {
	case error:
		return fmt.Sprintf("error(%s)", x.Error())
	case string:
		return fmt.Sprintf("%q", x)
	case injectedPanic:
		return x.String()
	}
	// dynamic type by kind only: named types declared by interpreted code are emulated by
	// unnamed ones (documented), so %T legitimately differs
	var b strings.Builder
	b.WriteString(reflect.TypeOf(r).Kind().String())
	b.WriteByte('(')
	if rv := reflect.ValueOf(r); rv.Kind() == reflect.Ptr && !rv.IsNil() {
		fmt.Fprintf(&b, "&%v", rv.Elem().Interface())
	} else {
		fmt.Fprintf(&b, "%v", r)
	}
	b.WriteByte(')')
	return b.String()
}

// faultPlan: panic with value at the faultAt-th call of hook.Fault (1-based; 0 = never)
type faultPlan struct {
	At    int
	Value interface{}
}

func newCtx(ch *sim.Choices, stream string, plan faultPlan, r *singleRun) *hook.Ctx {
	c := &hook.Ctx{Ch: ch.Stream(stream)}
	if plan.At > 0 {
		c.FaultFn = func(site string) {
			if c.NFault == plan.At {
				r.FaultHit, r.FaultSite, r.FaultLogLen = true, site, len(c.Log)
				panic(plan.Value)
			}
		}
	}
	return c
}

func runSingleNative(ch *sim.Choices, stream string, f func(), plan faultPlan) (r singleRun) {
	c := newCtx(ch, stream, plan, &r)
	hook.Cur = c
	defer func() {
		r.Escaped = fmtPanic(recover())
		r.Log, r.NChoose, r.NFault = c.Log, c.NChoose, c.NFault
	}()
	f()
	return
}

func runSingleInterp(ir *fast.Interp, out *bytes.Buffer, ch *sim.Choices, stream string, entry func(), plan faultPlan) (r singleRun) {
	c := newCtx(ch, stream, plan, &r)
	hook.Cur = c
	defer func() {
		r.Escaped = fmtPanic(recover())
		r.Log, r.NChoose, r.NFault = c.Log, c.NChoose, c.NFault
		if out != nil {
			r.Output = out.String()
		}
	}()
	entry()
	return
}

func (r *singleRun) lines() []string {
	l := append([]string(nil), r.Log...)
	if r.Escaped != "" {
		l = append(l, "ESCAPED "+r.Escaped)
	}
	return l
}
