package simcheck

import (
	"fmt"
	"testing"
	"time"

	"github.com/cosmos72/gomacro/fast"

	"verif/sim"
	"verif/twin/c11a"
)

var c11Specs = []*twinSpec{
	{Name: "c11a-stdlib-callbacks", Source: c11a.Source, Native: c11a.Main, Determinate: "all"},
}

func init() {
	register(&Prop{
		ID:    "C11",
		Level: "exploration",
		Race:  true,
		Rule: "one run = seeded rounds of 1..3 foreign goroutines (started by compiled code) that each route an interpreted function or an interpreted type through a compiled entry point (sort.Slice, sort.Sort, sort.Stable, sort.Search, strings.Map, strings.FieldsFunc, strings.IndexFunc, fmt via Stringer and error, fmt.Fprintf and io.WriteString on an interpreted io.Writer, io.ReadAll, container/heap on an interpreted heap.Interface, sync.Once.Do, sync.Map.Range, sync.Pool.New, time.AfterFunc), under one seeded schedule; " +
			"non-trivial = at least 2 tasks and 1 context switch; distinct = distinct (schedule hash, event log)",
		Runs: func(tier string) int {
			if tier == "thorough" {
				return 150000
			}
			return 1200
		},
		WallBudget: func(tier string) time.Duration {
			if tier == "thorough" {
				return 30 * time.Minute
			}
			return 90 * time.Second
		},
		Run:        runC11,
		FaultKinds: []string{"concurrent_foreign_callers", "starvation_bias_schedule", "timer_goroutine_entered_interpreter"},
		ProbeNames: []string{"sort.Slice", "sort.Sort", "strings.Map", "fmt", "io.ReadAll", "sync.Once", "time.AfterFunc", "strings.FieldsFunc", "sort.Stable", "container/heap", "sync.Map.Range", "io.Writer", "sync.Pool", "frames_recycled", "registry_entry_inherited_from_exited_task"},
		RealVsStub: []string{
			"real: reflect.MakeFunc wrappers, proxy types for sort.Interface / fmt.Stringer / error / io.Reader, registry lookup for foreign goroutines, the compiled standard library entry points",
			"stub: which goroutine runs next, wall clock (time.AfterFunc fires on the fake clock, on a goroutine created by the runtime)",
		},
		Assumptions: []string{
			"decides only the concurrent-invocation clauses of C11 over a fixed corpus of entry points; single-threaded interop over the space of programs and interfaces is a pure function of the program and is not decided here",
		},
	})
}

func runC11(t *testing.T, ch *sim.Choices, tier string) (o Outcome) {
	gen := ch.Stream("gen")
	spec := c11Specs[gen.Draw(len(c11Specs))]
	stmt := gen.Draw(2) == 1
	bias := []int{0, 0, 2, 6}[gen.Draw(4)]
	cfgN := sim.SchedConfig{MaxSteps: 800, QuantumMax: 1, Bias: bias}
	// real identities: protocol-step yields would make the schedule depend on the Go
	// runtime's recycling of g structs (see C33); statement yields and hook.Y() only
	cfgI := sim.SchedConfig{MaxSteps: 4000, QuantumMax: 1, Bias: bias, StmtYield: stmt}
	if stmt {
		cfgI.QuantumMax = []int{1, 3, 8}[gen.Draw(3)]
	}
	if bias > 0 {
		o.fault("starvation_bias_schedule", 1)
	}
	nat := runConcurrent(t, ch.Fork(), cfgN, false, spec, "Main()", nil)
	var mon *ownMonitor
	itp := runConcurrent(t, ch.Fork(), cfgI, true, spec, "Main()", func(s *sim.Sched, ir *fast.Interp) {
		mon = &ownMonitor{s: s}
		mon.install()
		hs.SkipCreateYield = true
	})
	o.Steps, o.SimNanos = itp.Steps, itp.SimNanos+nat.SimNanos
	o.EventHash = sim.Mix(nat.hashAll(), itp.hashAll())
	o.Hash = sim.Mix(itp.SchedHash, hashStrings(0, flatLogs(itp.Logs, false, "")))
	o.Nontrivial = len(itp.Logs) >= 2 && itp.Switches >= 1
	if itp.InterpErr != "" {
		o.fail("interp-error", normKey(spec.Name, "load"), itp.InterpErr+"\n"+itp.Output)
		return
	}
	if mon.overflow && mon.viol == "" {
		// a run that creates more runtime records / frames than the tables hold without breaking
		// any rule is a harness limit; with a recorded violation the violation is what counts
		panic(sim.HarnessFault{Msg: "ownership monitor tables overflowed"})
	}
	if itp.MaxParked >= 2 {
		o.fault("concurrent_foreign_callers", 1)
	}
	o.probe("frames_recycled", mon.recycled)
	o.probe("registry_entry_inherited_from_exited_task", mon.inherit)
	for _, e := range flatLogs(itp.Logs, false, "") {
		for _, k := range []string{"sort.Slice", "sort.Sort", "strings.Map", "fmt", "io.ReadAll", "sync.Once", "time.AfterFunc", "strings.FieldsFunc", "sort.Stable", "container/heap", "sync.Map.Range", "io.Writer", "sync.Pool"} {
			if containsWord(e, k) {
				o.probe(k, 1)
				if k == "time.AfterFunc" {
					o.fault("timer_goroutine_entered_interpreter", 1)
				}
			}
		}
	}
	o.Sample = map[string]interface{}{"template": spec.Name, "stmt_yields": stmt, "bias": bias, "schedule_prefix": fmt.Sprint(itp.Sample), "interpreted": itp.summary(16)}
	if mon.viol != "" {
		o.fail("ownership", normKey(spec.Name, mon.violKey), mon.viol+"\n"+joinLines(itp.summary(40)))
		return
	}
	if len(nat.Panics) > 0 || nat.Outcome != "completed" {
		panic(sim.HarnessFault{Msg: fmt.Sprintf("template %s: native twin: outcome %s panics %v", spec.Name, nat.Outcome, nat.Panics)})
	}
	for k, v := range itp.Panics {
		o.fail("interp-panic", normKey(spec.Name, v), fmt.Sprintf("task %s of the interpreted run panicked: %s\n%s", k, v, itp.Output))
		return
	}
	if itp.Outcome != nat.Outcome {
		o.fail("outcome-mismatch", normKey(spec.Name, itp.Outcome, nat.Outcome), fmt.Sprintf("interpreted run ended %s %v, compiled Go ended %s\n%s", itp.Outcome, itp.EndState, nat.Outcome, joinLines(itp.summary(60))))
		return
	}
	a, b := flatLogs(itp.Logs, false, ""), flatLogs(nat.Logs, false, "")
	if i, x, y := firstDiff(a, b); i >= 0 {
		o.fail("twin-mismatch", normKey(spec.Name, x, y), fmt.Sprintf("observation #%d differs: interpreted %q, compiled Go %q\n%s", i, x, y, joinLines(itp.summary(60))))
	}
	return
}
