package simcheck

import (
	"fmt"
	"strings"
	"testing"
	"time"

	"verif/sim"
	"verif/twin/c07a"
	"verif/twin/c07b"
)

func init() {
	register(&Prop{
		ID:    "C07",
		Level: "exploration",
		Rule: "one run = one seeded defer/panic/recover call tree (template c07a: every frame draws how many and which defers to install - closures, method values on pointer and value receivers, deferred builtins close/delete, defers in loops, recover directly in the deferred function / in a helper it calls / in a deferred named function, re-panic, named-result modification, nested panic inside a deferred call - and whether to panic, recurse or return), executed natively and interpreted fault-free and then with a panic injected at EVERY hook.Fault point k = 1..M of that tree (panic values of 6 dynamic types); " +
			"non-trivial = the tree ran at least one deferred call and the fault-free run has at least 8 events; distinct = distinct fault-free event log",
		Runs: func(tier string) int {
			if tier == "thorough" {
				return 400000
			}
			return 4000
		},
		WallBudget: func(tier string) time.Duration {
			if tier == "thorough" {
				return 30 * time.Minute
			}
			return 60 * time.Second
		},
		Run:        runC07,
		FaultKinds: []string{"panic_injected_in_function_body", "panic_injected_in_deferred_call", "panic_injected_while_panicking", "panic_escaped_to_top"},
		ProbeNames: []string{"executions", "recover_returned_non_nil", "helper_recover_returned_nil_while_panicking", "repanic", "named_result_modified_by_defer", "deferred_builtin"},
		RealVsStub: []string{
			"real: interpreter executor (reExecWithFlags, rundefer, pushDefer/popDefer, maybeRepanic), Comp.Defer, callRecover; native twin compiled by the Go toolchain",
			"stub: none (single goroutine); the decision and fault source is the seeded choice list",
		},
		Assumptions: []string{
			"excluded by documentation: recover inside compiled functions deferred by interpreted code, panic(nil), exact text of runtime-error panics",
			"the template is one fixed reviewed program; variety comes from the seeded call tree and the enumerated panic point, not from syntax generation",
		},
	})
}

var c07bNative = map[string]func(){"DeferClose": c07b.DeferClose, "DeferDelete": c07b.DeferDelete, "DeferCopy": c07b.DeferCopy, "DeferPanic": c07b.DeferPanic, "DeferRecover": c07b.DeferRecover}

// runC07Builtins: deferred builtin calls, one function at a time
func runC07Builtins(ch *sim.Choices, o *Outcome) {
	parts := strings.Split(c07b.Source, "//c07b:section ")
	header := parts[0]
	pick := 1 + ch.Stream("gen").Draw(len(parts)-1)
	for _, part := range parts[pick : pick+1] {
		nl := strings.IndexByte(part, '\n')
		name, body := strings.TrimSpace(part[:nl]), part[nl+1:]
		n := runSingleNative(ch.Fork(), "b", c07bNative[name], faultPlan{})
		o.probe("deferred_builtin", 1)
		ir, out, lerr := newInterp(header)
		if lerr == "" {
			func() {
				defer func() {
					if r := recover(); r != nil {
						lerr = fmt.Sprint(r)
					}
				}()
				ir.Eval(body)
			}()
		}
		if lerr != "" {
			o.fail("interp-error", "c07b|"+name, "the interpreter rejects a deferred builtin call that Go accepts (function "+name+"): "+lerr+"\n"+body)
			continue
		}
		i := runSingleInterp(ir, out, ch.Fork(), "b", func() { ir.Eval(name + "()") }, faultPlan{})
		a, b := i.lines(), n.lines()
		o.EventHash = hashStrings(hashStrings(o.EventHash, a), b)
		if idx, x, y := firstDiff(a, b); idx >= 0 {
			o.fail("twin-mismatch", normKey("c07b", name), fmt.Sprintf("%s: event #%d differs: interpreted %q, compiled Go %q", name, idx, x, y))
		}
	}
}

func runC07(t *testing.T, ch *sim.Choices, tier string) (o Outcome) {
	gen := ch.Stream("gen")
	if gen.Draw(40) == 0 {
		runC07Builtins(ch, &o)
		o.Hash, o.Nontrivial = o.EventHash, true
		o.Sample = "deferred builtin battery (template c07b)"
		return
	}
	valKind := gen.Draw(7)
	ir, out, lerr := newInterp(c07a.Source)
	if lerr != "" {
		o.fail("interp-error", "c07a|load", lerr+"\n"+out.String())
		return
	}
	entry := func() { ir.Eval("Main()") }
	// fault-free pass
	nat := runSingleNative(ch.Fork(), "tree", c07a.Main, faultPlan{})
	M := nat.NFault
	var firstLog []string
	h := uint64(0)
	for k := 0; k <= M; k++ {
		var val interface{} = injectedPanic{fmt.Sprint("k", k)}
		switch valKind {
		case 1:
			val = fmt.Sprint("injected-string-", k)
		case 2:
			val = fmt.Errorf("injected-error-%d", k)
		case 3:
			val = 1000 + k
		case 4:
			val = &injectedPanic{"ptr"}
		case 5:
			val = 2.5
		}
		plan := faultPlan{At: k, Value: val}
		n := nat
		if k > 0 {
			n = runSingleNative(ch.Fork(), "tree", c07a.Main, plan)
		}
		i := runSingleInterp(ir, out, ch.Fork(), "tree", entry, plan)
		o.probe("executions", 1)
		a, b := i.lines(), n.lines()
		h = hashStrings(h, a)
		o.EventHash = hashStrings(hashStrings(o.EventHash, a), b)
		o.Steps += len(a)
		if k == 0 {
			firstLog = a
		}
		classify(&o, n, k)
		if idx, x, y := firstDiff(a, b); idx >= 0 {
			o.Sample = map[string]interface{}{"fault_at": k, "interpreted": a, "native": b}
			o.fail("twin-mismatch", normKey("c07a", stripDigits(x), stripDigits(y)),
				fmt.Sprintf("tree with panic injected at fault point %d of %d: event #%d differs: interpreted %q, compiled Go %q\ninterpreted: %v\ncompiled:    %v\n%s", k, M, idx, x, y, a, b, i.Output))
			return
		}
		if i.Escaped != "" {
			// fresh interpreter after an escaped panic: keeps C07 independent of C12
			ir, out, lerr = newInterp(c07a.Source)
			if lerr != "" {
				o.fail("interp-error", "c07a|load", lerr)
				return
			}
			entry = func() { ir.Eval("Main()") }
		}
	}
	o.Hash = hashStrings(0, firstLog)
	ndef := 0
	for _, e := range firstLog {
		if len(e) > 2 && (e[:2] == "d-" || e[:4] == "meth" || e[:4] == "valm" || e[:4] == "help") {
			ndef++
		}
	}
	o.Nontrivial = ndef >= 1 && len(firstLog) >= 8
	if o.Sample == nil {
		o.Sample = map[string]interface{}{"fault_points": M, "fault_free_log": firstLog}
	}
	_ = h
	return
}

func classify(o *Outcome, n singleRun, k int) {
	inDefer, whilePanicking := false, false
	for _, e := range n.Log {
		switch {
		case hasPrefix(e, "d-recover") && !hasSuffix(e, " nil"):
			o.probe("recover_returned_non_nil", 1)
		case hasPrefix(e, "helper-recover") && hasSuffix(e, " nil"):
			o.probe("helper_recover_returned_nil_while_panicking", 1)
		case hasPrefix(e, "d-repanic"):
			o.probe("repanic", 1)
		case hasPrefix(e, "d-args"):
			o.probe("named_result_modified_by_defer", 1)
		}
	}
	_ = inDefer
	_ = whilePanicking
	if k > 0 && n.FaultHit {
		if hasPrefix(n.FaultSite, "in-") || n.FaultSite == "nested-body" {
			o.fault("panic_injected_in_deferred_call", 1)
			for _, e := range n.Log[:n.FaultLogLen] {
				if hasPrefix(e, "panic ") {
					// a panic was already raised earlier in this execution (approximation of
					// "while another panic is being handled": it may have been recovered since)
					o.fault("panic_injected_while_panicking", 1)
					break
				}
			}
		} else {
			o.fault("panic_injected_in_function_body", 1)
		}
	}
	if n.Escaped != "" {
		o.fault("panic_escaped_to_top", 1)
	}
}

func hasPrefix(s, p string) bool { return len(s) >= len(p) && s[:len(p)] == p }
func hasSuffix(s, p string) bool { return len(s) >= len(p) && s[len(s)-len(p):] == p }

func stripDigits(s string) string {
	b := make([]byte, 0, len(s))
	for i := 0; i < len(s); i++ {
		if s[i] >= '0' && s[i] <= '9' {
			if len(b) > 0 && b[len(b)-1] == '#' {
				continue
			}
			b = append(b, '#')
			continue
		}
		b = append(b, s[i])
	}
	return string(b)
}
