package simcheck

import (
	"fmt"
	"strings"
	"testing"
	"time"

	"github.com/cosmos72/gomacro/fast"
	xr "github.com/cosmos72/gomacro/xreflect"

	"verif/sim"
	"verif/twin/c06a"
)

type poisonT struct {
	Why string
}

var poisonVal = xr.ValueOf(poisonT{"POISON: stale frame slot"})

const poisonInt = 0xDEADBEEFCAFEF00D

func init() {
	register(&Prop{
		ID:    "C06",
		Level: "exploration",
		Rule: "one run = one seeded history of escape operations (template c06a: closures returned / stored in slices, maps and globals, two closures sharing a variable, addresses of int-slot and struct locals, closures made in loops and nested blocks, recursion, method values, named results captured by closures) interleaved with frame-churning calls, executed (a) natively, (b) interpreted with frame recycling disabled, (c) interpreted with a seeded frame-pool configuration: capacity from {0,1,2,3,32}, a seeded 'drop instead of recycle' coin per release, and, in three runs out of four, every recycled frame poisoned (all value slots overwritten with a sentinel value, all integer slots with a bit pattern; the fourth keeps the old content, which is what the shipped allocator hands out); " +
			"non-trivial = at least one poisoned (or, without poison, recycled) frame was handed out again and at least 3 escaped objects were used after their frame was released; distinct = distinct (pool configuration, event log)",
		Runs: func(tier string) int {
			if tier == "thorough" {
				return 300000
			}
			return 5000
		},
		WallBudget: func(tier string) time.Duration {
			if tier == "thorough" {
				return 30 * time.Minute
			}
			return 70 * time.Second
		},
		Run:        runC06,
		FaultKinds: []string{"frame_poisoned_on_release", "frame_dropped_instead_of_recycled", "small_pool_capacity", "poisoned_frame_handed_out_again", "frame_recycled_with_its_old_content"},
		ProbeNames: []string{"frames_released", "frames_kept_for_closure", "escaped_objects_used"},
		RealVsStub: []string{
			"real: frame allocation/release (newEnv, NewEnv, newEnv4Func, freeEnv), MarkUsedByClosure, IntAddressTaken handling, call and function specialisations; native twin compiled by the Go toolchain",
			"stub: the frame pool's capacity and the decision to recycle or drop a released frame (allocator seam H2); the content of released frames (poisoned)",
		},
		Assumptions: []string{
			"decides the frame-recycling clause and 'closures share captured variables by reference'; call-specialisation correctness over the space of signatures is a pure function of the program and is not decided here",
			"poisoning a released frame is legitimate: the interpreter hands recycled frames out without clearing them, so it may not rely on their old content",
		},
	})
}

type poolCfg struct {
	cap     int
	dropDen int // 0: never drop
	poison  bool
}

func runC06Interp(ch *sim.Choices, cfg *poolCfg, o *Outcome) (singleRun, string) {
	ir, out, lerr := newInterp(c06a.Source)
	if lerr != "" {
		return singleRun{}, lerr
	}
	pool := ch.Stream("pool")
	released, kept, dropped, poisoned, handed, recycled := 0, 0, 0, 0, 0, 0
	hs.EnvFree = func(run *fast.Run, env *fast.Env) {
		released++
		if env.UsedByClosure {
			kept++
		}
	}
	hs.EnvRecycle = func(run *fast.Run, env *fast.Env, n int) bool {
		if cfg == nil {
			return true // recycling disabled: every released frame is dropped
		}
		if n >= cfg.cap {
			dropped++
			return true
		}
		if cfg.dropDen > 0 && pool.Draw(cfg.dropDen) == 0 {
			dropped++
			return true
		}
		if cfg.poison {
			vals := env.Vals[:cap(env.Vals)]
			for i := range vals {
				vals[i] = poisonVal
			}
			ints := env.Ints[:cap(env.Ints)]
			for i := range ints {
				ints[i] = poisonInt
			}
			poisoned++
		}
		recycled++
		return false
	}
	hs.EnvAlloc = func(run *fast.Run, env *fast.Env, kind int) {
		if cfg == nil || !cfg.poison {
			return
		}
		if vals := env.Vals[:cap(env.Vals)]; len(vals) > 0 && vals[len(vals)-1] == poisonVal {
			handed++
		} else if ints := env.Ints[:cap(env.Ints)]; len(ints) > 0 && ints[len(ints)-1] == poisonInt {
			handed++
		}
	}
	r := runSingleInterp(ir, out, ch, "hist", func() { ir.Eval("Main()") }, faultPlan{})
	hs.EnvFree, hs.EnvRecycle, hs.EnvAlloc = nil, nil, nil
	if cfg != nil {
		o.probe("frames_released", released)
		o.probe("frames_kept_for_closure", kept)
		o.fault("frame_dropped_instead_of_recycled", dropped)
		o.fault("frame_poisoned_on_release", poisoned)
		o.fault("poisoned_frame_handed_out_again", handed)
		if !cfg.poison {
			o.fault("frame_recycled_with_its_old_content", recycled)
		}
		if cfg.cap < 32 {
			o.fault("small_pool_capacity", 1)
		}
	}
	return r, ""
}

func runC06(t *testing.T, ch *sim.Choices, tier string) (o Outcome) {
	gen := ch.Stream("gen")
	cfg := &poolCfg{cap: []int{0, 1, 2, 3, 32, 32}[gen.Draw(6)], dropDen: []int{0, 0, 2, 5}[gen.Draw(4)], poison: gen.Draw(4) != 0}
	nat := runSingleNative(ch.Fork(), "hist", c06a.Main, faultPlan{})
	if nat.Escaped != "" {
		panic(sim.HarnessFault{Msg: "c06a native twin panicked: " + nat.Escaped})
	}
	ref, lerr := runC06Interp(ch.Fork(), nil, &o)
	if lerr != "" {
		o.fail("interp-error", "c06a|load", lerr)
		return
	}
	got, _ := runC06Interp(ch.Fork(), cfg, &o)
	a, b, c := got.lines(), ref.lines(), nat.lines()
	used := 0
	for _, e := range c {
		if hasPrefix(e, "f ") || hasPrefix(e, "p ") || hasPrefix(e, "sp ") || hasPrefix(e, "final-") {
			used++
		}
	}
	o.probe("escaped_objects_used", used)
	o.Steps = len(a)
	o.EventHash = hashStrings(hashStrings(hashStrings(0, a), b), c)
	o.Hash = sim.Mix(uint64(cfg.cap), uint64(cfg.dropDen), hashStrings(0, a))
	o.Nontrivial = (o.Faults["poisoned_frame_handed_out_again"] > 0 || o.Faults["frame_recycled_with_its_old_content"] > 0) && used >= 3
	o.Sample = map[string]interface{}{"pool_capacity": cfg.cap, "drop_one_in": cfg.dropDen, "poison": cfg.poison, "events": clipList(a, 30),
		"frames": fmt.Sprintf("released=%d poisoned=%d handed_out_again=%d", o.Probes["frames_released"], o.Faults["frame_poisoned_on_release"], o.Faults["poisoned_frame_handed_out_again"])}
	desc := fmt.Sprintf("pool capacity %d, drop one in %d, poison %v", cfg.cap, cfg.dropDen, cfg.poison)
	for _, e := range a {
		if strings.Contains(e, "POISON") || strings.Contains(e, "16045690984503111693") || strings.Contains(e, "-2401053089206440") {
			o.fail("stale-frame-read", normKey("c06a", "sentinel"), desc+": a poisoned slot of a released frame was observed: "+e+"\n"+joinLines(a))
			return
		}
	}
	if i, x, y := firstDiff(a, b); i >= 0 {
		o.fail("recycling-mismatch", normKey("c06a", stripDigits(x), stripDigits(y)), fmt.Sprintf("%s: observation #%d is %q, the same interpreter with frame recycling disabled gives %q (compiled Go: %q)\n%s\n%s", desc, i, x, y, at(c, i), joinLines(clipList(a, 60)), got.Output))
		return
	}
	if i, x, y := firstDiff(b, c); i >= 0 {
		o.fail("twin-mismatch", normKey("c06a", stripDigits(x), stripDigits(y)), fmt.Sprintf("observation #%d: interpreted (recycling disabled) %q, compiled Go %q\n%s\n%s", i, x, y, joinLines(clipList(b, 60)), ref.Output))
	}
	return
}

func at(l []string, i int) string {
	if i < len(l) {
		return l[i]
	}
	return "<end>"
}

func clipList(l []string, n int) []string {
	if len(l) > n {
		return append(append([]string(nil), l[:n]...), fmt.Sprintf("... %d more", len(l)-n))
	}
	return l
}
