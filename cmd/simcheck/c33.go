package simcheck

import (
	"fmt"
	"testing"
	"time"

	"github.com/cosmos72/gomacro/fast"

	"verif/sim"
	"verif/twin/c33a"
)

func raceOffX() { sim.RaceOff() }
func raceOnX()  { sim.RaceOn() }

var c33Specs = []*twinSpec{
	{Name: "c33a-shortlived", Source: c33a.Source, Native: c33a.Main, Determinate: "all"},
}

func init() {
	register(&Prop{
		ID:    "C33",
		Level: "exploration",
		Race:  true,
		Rule: "one run = seeded rounds of short-lived goroutines entering interpreted code (go statement on named function / on literal, compiled helper calling an interpreted closure), one seeded schedule with yields at every registry protocol step and every statement, identity mode real or reuse-stress; " +
			"non-trivial = at least 2 tasks, 1 context switch; distinct = distinct (mode, schedule hash, event log)",
		Runs: func(tier string) int {
			if tier == "thorough" {
				return 200000
			}
			return 1500
		},
		WallBudget: func(tier string) time.Duration {
			if tier == "thorough" {
				return 30 * time.Minute
			}
			return 90 * time.Second
		},
		Run:        runC33,
		FaultKinds: []string{"identity_reuse_after_exit", "registry_entry_inherited_from_exited_task", "yield_inside_registry_protocol", "starvation_bias_schedule"},
		ProbeNames: []string{"mode_real", "mode_reuse_stress", "frames_recycled", "frame_allocations", "identity_checks", "go_named", "go_literal", "foreign_call"},
		RealVsStub: []string{
			"real: registry (glsGet/glsStore/glsDel, getRun4Goid), spin lock, frame pools, Comp.Go, newEnv4Func, funcGeneric, reflect.MakeFunc wrappers",
			"real (mode real) / stub (mode reuse-stress): the goroutine identity source gls.GoID(); in reuse-stress mode identities come from a pool of 3 with lowest-free-first reuse, unique among live tasks as the Go runtime guarantees",
			"stub: which goroutine runs next (seeded parking scheduler), wall clock",
			"observed only, not explored: the assembly implementation of GoID (checked against runtime goroutine numbers in mode real)",
		},
		Assumptions: []string{
			"at most 3 goroutines alive at a time, at most 12 per run (the bound named in the property)",
			"runtime goroutine numbers parsed from runtime.Stack are the ground truth for goroutine identity",
		},
	})
}

func runC33(t *testing.T, ch *sim.Choices, tier string) (o Outcome) {
	gen := ch.Stream("gen")
	spec := c33Specs[gen.Draw(len(c33Specs))]
	mode := gen.Draw(2)
	stmt := gen.Draw(2) == 1
	bias := []int{0, 0, 2, 6}[gen.Draw(4)]
	cfgN := sim.SchedConfig{MaxSteps: 600, QuantumMax: 1, Bias: bias}
	// with real identities, whether the registry already holds an entry for a goroutine
	// depends on the Go runtime's recycling of g structs; the lookup-or-create path then has a
	// different number of protocol steps from process to process. Protocol-step yields are
	// therefore decision points only with simulated identities (where reuse is seeded);
	// with real identities the interleaving is explored at statement granularity.
	cfgI := sim.SchedConfig{MaxSteps: 2500, QuantumMax: 1, Bias: bias, ProtoYield: mode == 1, StmtYield: stmt || mode == 0}
	if stmt {
		cfgI.QuantumMax = []int{1, 3, 8}[gen.Draw(3)]
	}
	if bias > 0 {
		o.fault("starvation_bias_schedule", 1)
	}
	o.probe([]string{"mode_real", "mode_reuse_stress"}[mode], 1)
	nat := runConcurrent(t, ch.Fork(), cfgN, false, spec, "Main()", nil)
	var mon *ownMonitor
	itp := runConcurrent(t, ch.Fork(), cfgI, true, spec, "Main()", func(s *sim.Sched, ir *fast.Interp) {
		mon = &ownMonitor{s: s, mode: mode}
		mon.install()
		hs.SkipCreateYield = mode == 0
	})
	o.Steps, o.SimNanos = itp.Steps, itp.SimNanos
	o.EventHash = sim.Mix(nat.hashAll(), itp.hashAll())
	o.Hash = sim.Mix(uint64(mode), itp.SchedHash, hashStrings(0, flatLogs(itp.Logs, false, "")))
	o.Nontrivial = len(itp.Logs) >= 2 && itp.Switches >= 1
	if itp.InterpErr != "" {
		o.fail("interp-error", normKey(spec.Name, "load"), itp.InterpErr+"\n"+itp.Output)
		return
	}
	if mon.overflow && mon.viol == "" {
		// a run that creates more runtime records / frames than the tables hold without breaking
		// any rule is a harness limit; with a recorded violation the violation is what counts
		panic(sim.HarnessFault{Msg: "ownership monitor tables overflowed"})
	}
	nproto := 0
	for _, d := range itp.Released {
		_ = d
	}
	for _, d := range itp.Sample {
		if d.Site >= sim.SiteProto && d.Site < sim.SiteProto+10 {
			nproto++
		}
	}
	o.fault("yield_inside_registry_protocol", nproto)
	o.fault("identity_reuse_after_exit", mon.reuse)
	o.fault("registry_entry_inherited_from_exited_task", mon.inherit)
	o.probe("frames_recycled", mon.recycled)
	o.probe("frame_allocations", mon.allocs)
	o.probe("identity_checks", mon.idchecks)
	for _, e := range flatLogs(itp.Logs, false, "") {
		for _, k := range []string{"named", "literal", "foreign"} {
			if len(e) > 0 && containsWord(e, k) {
				o.probe(map[string]string{"named": "go_named", "literal": "go_literal", "foreign": "foreign_call"}[k], 1)
			}
		}
	}
	o.Sample = map[string]interface{}{"template": spec.Name, "identity_mode": []string{"real", "reuse-stress"}[mode], "stmt_yields": stmt, "bias": bias,
		"schedule_prefix": fmt.Sprint(itp.Sample), "interpreted": itp.summary(16), "monitor": fmt.Sprintf("allocs=%d recycled=%d inherited=%d identity_reuse=%d idchecks=%d", mon.allocs, mon.recycled, mon.inherit, mon.reuse, mon.idchecks)}
	if mon.viol != "" {
		o.fail("ownership", normKey(spec.Name, mon.violKey), mon.viol+"\n"+joinLines(itp.summary(40)))
		return
	}
	if len(nat.Panics) > 0 || nat.Outcome != "completed" {
		panic(sim.HarnessFault{Msg: fmt.Sprintf("template %s: native twin: outcome %s panics %v", spec.Name, nat.Outcome, nat.Panics)})
	}
	for k, v := range itp.Panics {
		o.fail("interp-panic", normKey(spec.Name, v), fmt.Sprintf("task %s of the interpreted run panicked: %s\n%s", k, v, itp.Output))
		return
	}
	if itp.Outcome != nat.Outcome {
		o.fail("outcome-mismatch", normKey(spec.Name, itp.Outcome, nat.Outcome), fmt.Sprintf("interpreted run ended %s %v, compiled Go ended %s\n%s", itp.Outcome, itp.EndState, nat.Outcome, joinLines(itp.summary(60))))
		return
	}
	a, b := flatLogs(itp.Logs, false, ""), flatLogs(nat.Logs, false, "")
	if i, x, y := firstDiff(a, b); i >= 0 {
		o.fail("twin-mismatch", normKey(spec.Name, x, y), fmt.Sprintf("observation #%d differs: interpreted %q, compiled Go %q\n%s", i, x, y, joinLines(itp.summary(60))))
	}
	return
}

func containsWord(s, w string) bool {
	for i := 0; i+len(w) <= len(s); i++ {
		if s[i:i+len(w)] == w && (i+len(w) == len(s) || s[i+len(w)] == ' ') && i > 0 && s[i-1] == ' ' {
			return true
		}
	}
	return false
}
