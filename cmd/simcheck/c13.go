package simcheck

import (
	"fmt"
	"github.com/cosmos72/gomacro/gls"
	"go/token"
	"testing"
	"time"

	"github.com/cosmos72/gomacro/base"
	"github.com/cosmos72/gomacro/fast"

	"verif/hook"
	"verif/sim"
)

// interrupt budget: "within a bounded number of executed statements". Chosen from the
// property text, deliberately looser than the executor's polling interval.
const c13Budget = 64

var c13Results = map[string]string{}

// delivery kinds
const (
	c13Sync      = iota // Interp.Interrupt called on the evaluating goroutine before statement k
	c13Async            // called by another goroutine while the evaluating one waits before statement k
	c13Double           // two interrupts, before statements k and k+3
	c13Hook             // called from inside the j-th compiled function call
	c13Debug            // with Ctrl+C-enters-debugger: the debugger must be entered; it answers continue
	c13DebugKill        // ... it answers with a kill panic
	c13Between          // delivered while idle, before the evaluation starts
	c13Kinds
)

var c13KindNames = []string{"sync", "async-other-goroutine", "double", "inside-compiled-call", "enter-debugger-continue", "enter-debugger-kill", "between-evaluations"}

// enum entry: [target, kind, k, entry]
func c13Enumerate(tier string) [][]uint32 {
	c12Init()
	var out [][]uint32
	for ti, name := range c13Targets {
		n := c12Counts[name][0]
		stride := 1
		if tier != "thorough" && n > 150 {
			stride = 3
		}
		for k := 1; k <= n; k += stride {
			kinds := []int{c13Sync}
			switch {
			case tier == "thorough":
				kinds = []int{c13Sync, c13Async, c13Double, c13Debug, c13DebugKill}
			case k%5 == 0:
				kinds = []int{c13Sync, c13Async}
			case k%7 == 0:
				kinds = []int{c13Sync, c13Double}
			case k%11 == 0:
				kinds = []int{c13Sync, c13Debug, c13DebugKill}
			}
			for _, kind := range kinds {
				out = append(out, []uint32{uint32(ti), uint32(kind), uint32(k), uint32((k + ti) % 2)})
			}
		}
		for j := 1; j <= c12Counts[name][1]; j++ {
			out = append(out, []uint32{uint32(ti), c13Hook, uint32(j), 0})
		}
		out = append(out, []uint32{uint32(ti), c13Between, 0, 0}, []uint32{uint32(ti), c13Between, 0, 1})
	}
	return out
}

func init() {
	register(&Prop{
		ID:    "C13",
		Level: "fault_enumeration",
		Rule: "enumeration of (target, delivery point, delivery kind): 10 interrupt targets (tight loop without calls, range + nested loops, loop calling a function, recursion, loop inside a deferred call, select-default spin, loop in a function with defers, loop calling compiled code, a loop run by a closure that another goroutine created, a loop forwarding the results of a compiled two-result function) x an interrupt delivered before executed statement k (quick: every statement, every 3rd for targets above 150 statements; thorough: every statement) x kinds {on the evaluating goroutine, from another goroutine, double, from inside a compiled call, with Ctrl+C-enters-debugger answered continue / kill, between evaluations}; " +
			"non-trivial = the interrupt was delivered while the evaluation was running; distinct = distinct (target, kind, k, entry)",
		Runs:      func(tier string) int { return 0 },
		Enumerate: c13Enumerate,
		WallBudget: func(tier string) time.Duration {
			if tier == "thorough" {
				return 30 * time.Minute
			}
			return 2 * time.Minute
		},
		Run:        runC13,
		FaultKinds: []string{"interrupt_sync", "interrupt_from_other_goroutine", "interrupt_double", "interrupt_inside_compiled_call", "interrupt_enters_debugger", "interrupt_between_evaluations"},
		ProbeNames: []string{"ended_with_interrupt_panic", "completed_normally_less_than_budget_left", "debugger_entered", "interrupt_taken_then_deferred_calls_ran", "battery_events_compared"},
		RealVsStub: []string{
			"real: Interp.Interrupt, Run.interrupt, the executor's polling (exec, reExecWithFlags, restore, spinInterrupt), prepareEnv; interpreted targets and battery",
			"stub: the delivery instant (statement seam H1 decides it; for the other-goroutine kind a helper goroutine calls Interp.Interrupt while the evaluating goroutine waits at the seam)",
		},
		Assumptions: []string{
			fmt.Sprintf("bounded = the executor takes the interrupt (raises the interrupt panic / enters the debugger) within %d further executed statements of the interrupted goroutine - a budget taken from the property text, not from the implementation's polling interval; statements of deferred calls that run while the interrupt panic unwinds are Go semantics and are not counted (sanity cap 20000)", c13Budget),
			"runs without the race detector: the plain store to the asynchronous signal flag is an intentional benign race and not what C13 states",
		},
	})
}

type budgetExceeded struct{ after int }

func runC13(t *testing.T, ch *sim.Choices, tier string) (o Outcome) {
	c12Init()
	en := ch.Stream("enum")
	ti, kind, k, entry := en.Draw(len(c13Targets)), en.Draw(c13Kinds), en.Draw(1<<20), en.Draw(2)
	name := c13Targets[ti]
	debugger := kind == c13Debug || kind == c13DebugKill
	e, lerr := newC12Env(debugger, false)
	if lerr != "" {
		o.fail("interp-error", "c12p|load", lerr)
		return
	}
	if debugger {
		e.ir.Comp.Globals.Options |= base.OptCtrlCEnterDebugger
	}
	// uninterrupted reference result (fresh interpreter, memoised per target)
	want, ok := c13Results[name]
	if !ok {
		r, _ := newC12Env(false, false)
		hook.Cur = &hook.Ctx{Ch: sim.NewReplay(0, nil).Stream("none")}
		vs, _ := r.ir.Eval(name + "()")
		want = fmt.Sprint(vs[0].Interface())
		c13Results[name] = want
	}
	ctx := &hook.Ctx{Ch: sim.NewReplay(0, nil).Stream("none")}
	hook.Cur = ctx
	delivered, nstmt, deliveredAt, stopAfter, servedAfter := 0, 0, -1, -1, -1
	deliver := func() {
		delivered++
		if deliveredAt < 0 {
			deliveredAt = nstmt
		}
		if kind == c13Async {
			done := make(chan struct{})
			go func() {
				e.ir.Interrupt(nil)
				close(done)
			}()
			<-done
		} else {
			e.ir.Interrupt(nil)
		}
	}
	kill := interface{}(injectedPanic{"debugger kill"})
	dbgStops := 0
	var dbg fast.Debugger = debuggerFunc(func(env *fast.Env) fast.DebugOp {
		dbgStops++
		if stopAfter < 0 && deliveredAt >= 0 {
			stopAfter = nstmt - deliveredAt
		}
		if kind == c13DebugKill {
			return fast.DebugOp{Depth: 0, Panic: &kill}
		}
		return fast.DebugOpContinue
	})
	e.ir.SetDebugger(dbg)
	mainG := gls.GoID()
	mainRun := e.ir.VerifEnv().Run // the runtime record Interp.Interrupt flags: not necessarily the record of the frame executing now
	hs.Stmt = func(env *fast.Env, pos token.Pos) {
		if gls.GoID() != mainG {
			return // a goroutine started by the target: only the evaluating goroutine is interrupted
		}
		nstmt++
		if kind != c13Hook && kind != c13Between && (nstmt == k || (kind == c13Double && nstmt == k+3)) {
			deliver()
		}
		if deliveredAt >= 0 && servedAfter < 0 && mainRun.Signals.Async == base.SigNone {
			// the executor has taken the interrupt: statements executed from here on are the
			// deferred calls Go semantics require to run while the interrupt panic unwinds
			servedAfter = nstmt - deliveredAt
		}
		if deliveredAt >= 0 && servedAfter < 0 && stopAfter < 0 && nstmt-deliveredAt > c13Budget {
			panic(budgetExceeded{nstmt - deliveredAt})
		}
		if nstmt > 20000 {
			panic(budgetExceeded{-1})
		}
	}
	if kind == c13Hook {
		ctx.FaultFn = func(site string) {
			if ctx.NFault == k {
				deliver()
			}
		}
	}
	if kind == c13Between {
		e.ir.Interrupt(nil)
		o.fault("interrupt_between_evaluations", 1)
	}
	var result string
	esc := func() (esc interface{}) {
		defer func() { esc = recover() }()
		var vs []interface{}
		if entry == 0 {
			v, _ := e.ir.Eval(name + "()")
			for _, x := range v {
				vs = append(vs, x.Interface())
			}
		} else {
			v, _ := e.ir.RunExpr(e.ir.Compile(name + "()"))
			for _, x := range v {
				vs = append(vs, x.Interface())
			}
		}
		if len(vs) > 0 {
			result = fmt.Sprint(vs[0])
		}
		return nil
	}()
	hs.Stmt = nil
	ctx.FaultFn = nil
	o.Steps = nstmt
	o.Nontrivial = delivered > 0
	o.Hash = sim.Mix(uint64(ti), uint64(kind), uint64(k), uint64(entry))
	if delivered > 0 {
		o.fault([]string{"interrupt_sync", "interrupt_from_other_goroutine", "interrupt_double", "interrupt_inside_compiled_call", "interrupt_enters_debugger", "interrupt_enters_debugger", "interrupt_between_evaluations"}[kind], 1)
	}
	after := -1
	if deliveredAt >= 0 {
		after = nstmt - deliveredAt
	}
	desc := fmt.Sprintf("target %s, interrupt %s at statement %d of %d (entry %s): delivered=%d, statements executed after delivery=%d (taken by the executor after %d), ended with %s result=%q", name, c13KindNames[kind], k, c12Counts[name][0], entryNames[entry], delivered, after, servedAfter, fmtPanic(esc), result)
	o.Sample = map[string]interface{}{"case": desc}
	fail := func(class, key, msg string) {
		o.fail(class, normKey("c13", name, c13KindNames[kind], key), desc+"\n"+msg+"\n"+tailStr(e.out.String(), 400))
	}
	// --- oracle 1: how the evaluation ended
	switch {
	case kind == c13Between:
		if esc != nil || result != want {
			fail("stale-interrupt", "between", "an interrupt delivered between evaluations must not abort the next evaluation")
		}
	case delivered == 0:
		// the evaluation finished before statement k was reached (k beyond the end): nothing delivered
		if esc != nil || result != want {
			panic(sim.HarnessFault{Msg: "undisturbed evaluation misbehaved: " + desc})
		}
	case debugger:
		if be, isB := esc.(budgetExceeded); isB {
			fail("interrupt-late", "debugger-not-entered", fmt.Sprintf("the debugger was not entered within %d statements (%d executed)", c13Budget, be.after))
		} else if dbgStops == 0 {
			// fewer than budget statements were left (possibly none: the interrupt landed on the
			// function's last statement): acceptable only if it then completed normally
			if esc != nil || result != want {
				fail("interrupt-wrong-outcome", "debugger-no-stop", "the debugger was never entered and the evaluation did not complete normally")
			}
			o.probe("completed_normally_less_than_budget_left", 1)
		} else {
			o.probe("debugger_entered", 1)
			if kind == c13Debug && (esc != nil || result != want) {
				fail("interrupt-wrong-outcome", "debugger-continue", "after the debugger answered continue the evaluation must complete with the uninterrupted result "+want)
			}
			if kind == c13DebugKill && fmtPanic(esc) != fmtPanic(kill) {
				fail("interrupt-wrong-outcome", "debugger-kill", "after the debugger answered with a kill panic the evaluation must end with that panic")
			}
		}
	default:
		if be, isB := esc.(budgetExceeded); isB {
			fail("interrupt-late", "not-served", fmt.Sprintf("the interrupt was not served within %d executed statements (%d executed): lost or late", c13Budget, be.after))
		} else if sig, isSig := esc.(base.Signal); isSig && sig == base.SigInterrupt {
			o.probe("ended_with_interrupt_panic", 1)
			if servedAfter >= 0 {
				o.probe("interrupt_taken_then_deferred_calls_ran", 1)
			}
		} else if esc == nil && result == want && servedAfter < 0 {
			o.probe("completed_normally_less_than_budget_left", 1)
		} else if esc == nil && servedAfter >= 0 {
			fail("interrupt-lost", "taken-but-not-raised", "the executor consumed the interrupt but the evaluation completed normally")
		} else {
			fail("interrupt-wrong-outcome", "ended", "an interrupted evaluation must end with the interrupt panic (or complete normally when fewer than the budget statements were left)")
		}
	}
	if o.Class != "" {
		return
	}
	// --- oracle 2: the next evaluation is not disturbed by a stale flag, definitions are kept
	hook.Cur = &hook.Ctx{Ch: sim.NewReplay(0, nil).Stream("none")}
	esc2 := func() (esc interface{}) {
		defer func() { esc = recover() }()
		v, _ := e.ir.Eval(name + "()")
		result = fmt.Sprint(v[0].Interface())
		return nil
	}()
	if esc2 != nil || result != want {
		fail("stale-interrupt", "next-evaluation", fmt.Sprintf("the evaluation after the interrupted one ended with %s result %q, want %q", fmtPanic(esc2), result, want))
		return
	}
	// --- oracle 3: battery equals the fresh interpreter
	e.ir.Comp.Globals.Options &^= base.OptCtrlCEnterDebugger
	e.dbg = &scriptDebugger{}
	e.ir.SetDebugger(e.dbg)
	got := e.battery()
	wantB := c12Fresh[debugger]
	o.probe("battery_events_compared", len(wantB))
	o.EventHash = hashStrings(hashStrings(0, got), []string{fmtPanic(esc), result})
	if i, x, y := firstDiff(got, wantB); i >= 0 {
		fail("battery-mismatch", stripDigits(x)+"|"+stripDigits(y), fmt.Sprintf("battery observation #%d is %q, a fresh interpreter gives %q", i, x, y))
	}
	return
}

type debuggerFunc func(env *fast.Env) fast.DebugOp

func (f debuggerFunc) Breakpoint(ir *fast.Interp, env *fast.Env) fast.DebugOp { return f(env) }
func (f debuggerFunc) At(ir *fast.Interp, env *fast.Env) fast.DebugOp         { return f(env) }
