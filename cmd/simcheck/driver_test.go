//go:debug gotypesalias=0
package simcheck

import (
	"bytes"
	"encoding/json"
	"flag"
	"fmt"
	"os"
	"runtime"
	"strconv"
	"strings"
	"testing"
	"time"
	"verif/sim"
)

var (
	fCmd      = flag.String("sim.cmd", "", "run | worker | shrink | replay | list | determinism")
	fProp     = flag.String("sim.prop", "", "property id")
	fTier     = flag.String("sim.tier", "quick", "quick | thorough")
	fSeed     = flag.Uint64("sim.seed", 0, "base seed (VERIF_SEED)")
	fFrom     = flag.Int("sim.from", 0, "")
	fTo       = flag.Int("sim.to", 0, "")
	fOut      = flag.String("sim.out", "", "")
	fFile     = flag.String("sim.file", "", "")
	fDeadline = flag.Int64("sim.deadline", 0, "unix time after which a worker stops")
	fWorkers  = flag.Int("sim.workers", 0, "")
	fEvHash   = flag.Bool("sim.eventhashes", false, "worker: record per-run event-log hashes")
)

func TestMain(m *testing.M) {
	flag.Parse()
	os.Exit(m.Run())
}

func baseSeed() uint64 {
	if *fSeed != 0 {
		return *fSeed
	}
	if s := os.Getenv("VERIF_SEED"); s != "" {
		if v, err := strconv.ParseUint(s, 10, 64); err == nil {
			return v
		}
		if v, err := strconv.ParseInt(s, 10, 64); err == nil {
			return uint64(v)
		}
	}
	return 1
}

func TestSim(t *testing.T) {
	if *fCmd == "" {
		t.Skip("driver only")
	}
	if *fCmd == "list" {
		for id := range props {
			fmt.Println(id)
		}
		return
	}
	var p *Prop
	if *fCmd == "shrink" || *fCmd == "replay" {
		var v rawViolation
		b, err := os.ReadFile(*fFile)
		if err != nil || json.Unmarshal(b, &v) != nil {
			fmt.Fprintf(os.Stderr, "cannot read %s: %v\n", *fFile, err)
			os.Exit(2)
		}
		p = props[v.Property]
		if p == nil {
			fmt.Fprintf(os.Stderr, "unknown property %q\n", v.Property)
			os.Exit(2)
		}
		if *fCmd == "shrink" {
			budget := 90 * time.Second
			if v.Tier == "thorough" {
				budget = 5 * time.Minute
			}
			shrink(t, p, &v, budget)
			writeJSON(*fOut, &v)
			os.Exit(0)
		}
		fmt.Printf("replaying %s: property=%s seed=%d class=%s key=%s choices=%d\n", *fFile, v.Property, v.Seed, v.Class, v.Key, v.NChoices)
		if (v.Class == "crash" || v.Class == "hang") && os.Getenv("SIM_REPLAY_INNER") == "" {
			// the run kills or wedges its process: execute it in a child and observe that
			cmd := childCmd("-sim.cmd=replay", "-sim.file="+*fFile)
			cmd.Env = append(cmd.Env, "SIM_REPLAY_INNER=1")
			var buf bytes.Buffer
			cmd.Stdout, cmd.Stderr = &buf, &buf
			cmd.Start()
			limit := 100 * time.Second
			if v.Tier == "thorough" {
				limit = 5 * time.Minute
			}
			hung := false
			timer := time.AfterFunc(limit, func() { hung = true; cmd.Process.Kill() })
			err := cmd.Wait()
			timer.Stop()
			out := buf.String()
			switch {
			case v.Class == "hang" && hung:
				fmt.Printf("the run did not finish within %v\nREPRODUCED\nVIOLATION property=%s replay=%s\n", limit, v.Property, *fFile)
				os.Exit(1)
			case v.Class == "crash" && err != nil && !hung && !strings.Contains(out, "VIOLATION property=") && !strings.Contains(out, "NOT-REPRODUCED"):
				fmt.Printf("the process running it died: %s\n%s\nREPRODUCED\nVIOLATION property=%s replay=%s\n", crashHeadline(out), tail(out, 3000), v.Property, *fFile)
				os.Exit(1)
			}
			fmt.Printf("%s\nNOT-REPRODUCED: the run neither crashed nor hung this time\n", tail(out, 2000))
			os.Exit(0)
		}
		o, fault, tries := replayMatching(t, p, &v, 200)
		fmt.Printf("attempts until the Go runtime repeated the recorded select picks: %d\n", tries)
		if fault != "" {
			fmt.Fprintf(os.Stderr, "HARNESS-FAULT: %s\n", fault)
			os.Exit(2)
		}
		if o.Class == "" {
			fmt.Println("NOT-REPRODUCED: the property held on this replay")
			os.Exit(0)
		}
		fmt.Printf("violation class=%s key=%s event_log_hash=%d\n%s\n", o.Class, o.Key, o.EventHash, o.Detail)
		if (v.Class == "race" && o.Class == "race" && sameRace(o.Key, v.Key)) || (o.Class == v.Class && o.Key == v.Key && (o.EventHash == v.EventHash || v.EventHash == 0)) {
			fmt.Println("REPRODUCED")
		} else {
			fmt.Println("DIFFERENT violation than recorded")
		}
		fmt.Printf("VIOLATION property=%s replay=%s\n", v.Property, *fFile)
		os.Exit(1)
	}
	p = props[*fProp]
	if p == nil {
		fmt.Fprintf(os.Stderr, "unknown property %q\n", *fProp)
		os.Exit(2)
	}
	switch *fCmd {
	case "one":
		// debug: run one index and print everything
		seed := runSeed(baseSeed(), p.ID, *fFrom)
		ch := sim.NewExplore(seed)
		if p.Enumerate != nil {
			ch.Force("enum", p.Enumerate(*fTier)[*fFrom])
		}
		o, fault := runGuarded(t, p, ch, *fTier)
		b, _ := json.MarshalIndent(o, "", " ")
		fmt.Printf("run %d seed %d fault=%q\n%s\nchoices: %s\n", *fFrom, seed, fault, b, sim.TraceString(ch.Trace()))
		os.Exit(0)
	case "worker":
		dl := time.Now().Add(24 * time.Hour)
		if *fDeadline != 0 {
			dl = time.Unix(*fDeadline, 0)
		}
		worker(t, p, *fTier, baseSeed(), *fFrom, *fTo, *fOut, dl, *fEvHash)
		os.Exit(0)
	case "determinism":
		n := *fTo
		if n == 0 {
			n = 64
		}
		os.Exit(parentDeterminism(p, *fTier, baseSeed(), n))
	case "run":
		n := *fWorkers
		if n == 0 {
			n = runtime.NumCPU()
		}
		os.Exit(parentRun(p, *fTier, baseSeed(), n))
	default:
		fmt.Fprintf(os.Stderr, "unknown command %q\n", *fCmd)
		os.Exit(2)
	}
}
