package simcheck

import (
	"bufio"
	"bytes"
	"fmt"
	"os"
	"regexp"
	"strings"
	"testing"
	"time"

	"github.com/cosmos72/gomacro/base"
	"github.com/cosmos72/gomacro/fast"
	"github.com/cosmos72/gomacro/fast/debug"

	"verif/sim"
)

// evaluable statement templates (names made unique with a counter), with and without
// continuation lines, comments and multi-line literals: they only shift line numbers
var c27Templates = []string{
	"var v%d = %d\n",
	"var v%d = 1 +\n\t%d\n",
	"func f%d() int {\n\treturn %d\n}\n",
	"type T%d struct {\n\tA int // field %d\n\tB string\n}\n",
	"var s%d = \"str // { %d\"\n",
	"var r%d = `raw\n%d\n`\n",
	"const c%d = %d\n",
	"var w%d = len(\n\t\"abc\") + %d\n",
	"var (\n\tg%d = 1\n\th%[1]d = %d\n)\n",
}

var c27Fillers = []string{"\n", "// comment\n", "/* block\n comment */\n", "\n\n", "   \n", "// a\n// b\n"}

type c27Stream struct {
	Data       []byte
	Line, Col  int    // constructed position of the marker token
	Kind       string // undefined | parse | breakpoint
	Items      []string
	ChunksPrev int
}

func genC27(gen *sim.Stream) *c27Stream {
	st := &c27Stream{}
	var b bytes.Buffer
	n := 0
	line := 1
	add := func(text string) {
		b.WriteString(text)
		line += strings.Count(text, "\n")
	}
	// a block comment spanning lines whose last line continues with code: the comment and
	// the statement are one chunk
	inlineComment := func() string {
		if gen.Draw(5) == 4 {
			return []string{"/* c1\n c2 */ ", "/* a\n\n b */", "/**/ "}[gen.Draw(3)]
		}
		return ""
	}
	stmt := func() {
		n++
		add(inlineComment())
		t := c27Templates[gen.Draw(len(c27Templates))]
		st.Items = append(st.Items, strings.SplitN(t, "%", 2)[0])
		add(fmt.Sprintf(t, n, n*3))
		st.ChunksPrev++
	}
	filler := func() {
		for k := gen.Draw(3); k > 0; k-- {
			add(c27Fillers[gen.Draw(len(c27Fillers))])
		}
	}
	if gen.Draw(3) == 2 {
		// scripts usually start with a package clause: a chunk of its own
		filler()
		add("package main\n")
		st.ChunksPrev++
		st.Items = append(st.Items, "package")
	}
	before := gen.Draw(7)
	for i := 0; i < before; i++ {
		filler()
		stmt()
		if gen.Draw(6) == 5 {
			// an earlier chunk that fails (compile error, or a panic at run time):
			// its lines count like everybody else's
			filler()
			n++
			add([]string{
				fmt.Sprintf("var e%d = undefinedEarlier%d +\n\t1\n", n, n),
				fmt.Sprintf("var z%d = 0\nvar e%d = 10 /\n\tz%d\n", n, n, n),
				fmt.Sprintf("func bad%d() {\n\tvar m map[string]int\n\tm[\"a\"] = 1\n}\nbad%d()\n", n, n),
				fmt.Sprintf("var q%d = ]\n", n),
				fmt.Sprintf("var u%d = \"never closed\n", n),
				fmt.Sprintf("var r%d = 'x\n", n),
			}[gen.Draw(6)])
			st.ChunksPrev++
			st.Items = append(st.Items, "failing-chunk")
		}
	}
	filler()
	indent := inlineComment()
	if k := strings.LastIndexByte(indent, '\n'); k >= 0 {
		add(indent[:k+1])
		indent = indent[k+1:]
	}
	indent += strings.Repeat(" ", gen.Draw(4))
	switch gen.Draw(3) {
	case 0:
		st.Kind = "undefined"
		if gen.Draw(3) == 0 {
			// the offending token is the very first byte of its chunk, and the chunk before it
			// (separated by skipped lines) was reported too: two position look-ups in a row
			n++
			if indent != "" {
				add(indent + "\n") // the end of an inline comment, or blanks: a line of its own
			}
			add(fmt.Sprintf("var e%d = undefinedEarlier%d +\n\t1\n", n, n))
			st.ChunksPrev++
			st.Items = append(st.Items, "failing-chunk")
			for k := 1 + gen.Draw(3); k > 0; k-- {
				add([]string{"\n", "// comment\n", "\n\n"}[gen.Draw(3)])
			}
			st.Line, st.Col = line, 1
			add("undefinedIdent(3)\n")
			break
		}
		pre := indent + "var m = 1 +\n\t\t"
		add(pre)
		st.Line, st.Col = line, 3
		add("undefinedIdent + 2\n")
	case 1:
		st.Kind = "parse"
		pre := indent + "var q = "
		st.Line, st.Col = line, len(pre)+1
		add(pre + ")\n")
	case 2:
		st.Kind = "breakpoint"
		add(indent + "func bp() int {\n\tx := 1\n")
		st.Line, st.Col = line, 2
		add("\t\"break\"\n\treturn x\n}\n")
		filler()
		add("bp()\ncontinue\n")
	}
	after := gen.Draw(3)
	for i := 0; i < after; i++ {
		filler()
		stmt()
	}
	st.Data = b.Bytes()
	return st
}

var c27PosRe = regexp.MustCompile(`([^\s:]+):(\d+):(\d+)`)

func init() {
	register(&Prop{
		ID:    "C27",
		Level: "exploration",
		Rule: "one run = one multi-chunk source (0..6 evaluable declarations from 9 templates with continuation lines, multi-line raw strings and groups, separated by seeded runs of blank lines, line and block comments) with one marker at a constructed (line, column) - an undefined identifier on a continuation line (compile error), an invalid token (parse error), or a \"break\" statement reached under the real debugger (stop position) - evaluated through EvalReader over a fragmenting byte source, EvalFile on a real file, or the REPL loop over a one-line-per-call line source; " +
			"non-trivial = at least 2 chunks precede the marker; distinct = distinct (source, entry, delivery)",
		Runs: func(tier string) int {
			if tier == "thorough" {
				return 300000
			}
			return 6000
		},
		WallBudget: func(tier string) time.Duration {
			if tier == "thorough" {
				return 25 * time.Minute
			}
			return 60 * time.Second
		},
		Run:        runC27,
		FaultKinds: []string{"fragmented_delivery", "zero_byte_reads", "earlier_source_abandoned_midway"},
		ProbeNames: []string{"entry_EvalReader", "entry_EvalFile", "entry_REPL", "marker_undefined", "marker_parse", "marker_breakpoint", "chunks_before_marker"},
		RealVsStub: []string{
			"real: Interp.EvalReader / EvalFile / ReadParseEvalPrint, Interp.Read line counter, parser positions, the file set with line offsets (go/etoken), the real fast/debug.Debugger printing its stop position",
			"stub: the byte source (simulated io.Reader / line source); EvalFile reads a real temporary file",
		},
		Assumptions: []string{
			"decides clause 1 (positions across chunks) only; clause 2 (file-set arithmetic with a starting line offset) is a pure function and is not decided here; the interpreter does not report panic locations with positions",
			"only error kinds whose offending token is unambiguous are used",
		},
	})
}

func runC27(t *testing.T, ch *sim.Choices, tier string) (o Outcome) {
	gen := ch.Stream("gen")
	st := genC27(gen)
	entry := gen.Draw(3)
	ir, out, _ := newInterp("")
	g := &ir.Comp.Globals
	g.Options |= base.OptTrapPanic
	g.Options &^= base.OptShowPrompt | base.OptShowEval | base.OptShowEvalType
	if st.Kind == "breakpoint" {
		g.Options |= base.OptDebugger
		ir.SetDebugger(&debug.Debugger{})
	}
	if entry != 2 && gen.Draw(4) == 0 {
		// the interpreter has a history: an earlier source was abandoned in the middle because
		// one of its chunks failed and panics are not trapped (gomacro --no-trap). Positions
		// in the next source count from its own first line.
		o.fault("earlier_source_abandoned_midway", 1)
		g.Options &^= base.OptTrapPanic
		prev := "var p1 = 1\n\nvar p2 = 2\nvar p3 = undefinedPrev +\n\t1\nvar p4 = 4\n"
		if gen.Draw(2) == 0 {
			prev = "var p1 = 1\nfunc pf() int {\n\treturn 1 / (p1 - 1)\n}\nvar p2 = pf()\nvar p3 = 3\nvar p4 = 4\n"
		}
		func() {
			defer func() { recover() }()
			ir.EvalReader(strings.NewReader(prev))
		}()
		g.Options |= base.OptTrapPanic
		out.Reset()
	}
	wantFile := "repl.go"
	f := sim.StreamFaults{CutAt: -1, ErrAt: -1}
	o.probe("marker_"+st.Kind, 1)
	o.probe("chunks_before_marker", st.ChunksPrev)
	switch entry {
	case 0:
		o.probe("entry_EvalReader", 1)
		f.MaxFrag = 1 + gen.Draw(9)
		f.ZeroReads = gen.Draw(2) == 1
		fr := &sim.FaultyReader{Data: st.Data, F: f, Ch: ch.Stream("io")}
		o.fault("fragmented_delivery", 1)
		_, err := ir.EvalReader(fr)
		o.fault("zero_byte_reads", fr.Stats.ZeroReads)
		if err != nil {
			out.WriteString("EvalReader returned: " + err.Error() + "\n")
		}
	case 1:
		o.probe("entry_EvalFile", 1)
		tmp, err := os.CreateTemp("", "c27-*.go")
		if err != nil {
			panic(sim.HarnessFault{Msg: err.Error()})
		}
		tmp.Write(st.Data)
		tmp.Close()
		defer os.Remove(tmp.Name())
		wantFile = tmp.Name()
		if _, err := ir.EvalFile(tmp.Name()); err != nil {
			out.WriteString("EvalFile returned: " + err.Error() + "\n")
		}
	case 2:
		o.probe("entry_REPL", 1)
		f.Lines = 1
		g.Readline = &sim.LineReader{Data: st.Data, F: f, Ch: ch.Stream("io")}
		g.Line = 0
		for i := 0; i < 1000 && ir.ReadParseEvalPrint(); i++ {
		}
	}
	_ = bufio.NewReader
	text := out.String()
	o.Hash = sim.Mix(sim.HashString(string(st.Data)), uint64(entry), uint64(f.MaxFrag))
	o.EventHash = sim.HashString(strings.ReplaceAll(text, wantFile, "<file>"))
	o.Nontrivial = st.ChunksPrev >= 2
	o.Sample = map[string]interface{}{"source": string(st.Data), "marker": fmt.Sprintf("%s at %d:%d", st.Kind, st.Line, st.Col), "entry": []string{"EvalReader", "EvalFile", "REPL"}[entry], "output": text}
	// find the report
	var want string
	switch st.Kind {
	case "undefined":
		want = "undefined identifier: undefinedIdent"
	case "parse":
		want = "expected operand, found ')'"
	case "breakpoint":
		want = "// breakpoint at "
	}
	var reports []string
	for _, l := range strings.Split(text, "\n") {
		if strings.Contains(l, want) {
			reports = append(reports, l)
		}
	}
	desc := fmt.Sprintf("%s marker constructed at %s:%d:%d, entry %s, delivery %+v, %d chunks before it", st.Kind, wantFile, st.Line, st.Col, []string{"EvalReader", "EvalFile", "REPL"}[entry], f, st.ChunksPrev)
	if len(reports) != 1 {
		o.fail("position-report-missing", normKey("c27", st.Kind, "missing"), fmt.Sprintf("%s\nexpected exactly one report containing %q, found %d\nsource:\n%s\noutput:\n%s", desc, want, len(reports), st.Data, text))
		return
	}
	m := c27PosRe.FindStringSubmatch(reports[0])
	if m == nil {
		o.fail("position-report-missing", normKey("c27", st.Kind, "no-position"), desc+"\nthe report carries no file:line:col: "+reports[0])
		return
	}
	got := fmt.Sprintf("%s:%s:%s", m[1], m[2], m[3])
	exp := fmt.Sprintf("%s:%d:%d", wantFile, st.Line, st.Col)
	if got != exp {
		o.fail("wrong-position", normKey("c27", st.Kind, []string{"EvalReader", "EvalFile", "REPL"}[entry]), fmt.Sprintf("%s\nreported %s, the token is at %s\nreport: %s\nsource:\n%s", desc, got, exp, reports[0], st.Data))
	}
	_ = fast.New
	return
}
