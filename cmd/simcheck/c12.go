package simcheck

import (
	"bytes"
	"fmt"
	"github.com/cosmos72/gomacro/gls"
	"go/token"
	"os"
	"strings"
	"sync"
	"testing"
	"time"

	"github.com/cosmos72/gomacro/base"
	"github.com/cosmos72/gomacro/fast"

	"verif/hook"
	"verif/sim"
	"verif/twin/c12p"
)

// ---------------------------------------------------------------- scripted debugger

// scriptDebugger implements fast.Debugger: it answers every stop with the next op of a
// fixed script and records where it was stopped.
type scriptDebugger struct {
	script []string // step next finish continue
	pos    int
	Stops  []string
}

func (d *scriptDebugger) next(env *fast.Env, kind string) fast.DebugOp {
	d.Stops = append(d.Stops, fmt.Sprintf("%s depth=%d ip=%d", kind, env.CallDepth, env.IP))
	op := "continue"
	if d.pos < len(d.script) {
		op = d.script[d.pos]
		d.pos++
	}
	switch op {
	case "step":
		return fast.DebugOpStep
	case "next":
		return fast.DebugOp{Depth: env.CallDepth + 1}
	case "finish":
		return fast.DebugOp{Depth: env.CallDepth}
	}
	return fast.DebugOpContinue
}

func (d *scriptDebugger) Breakpoint(ir *fast.Interp, env *fast.Env) fast.DebugOp {
	return d.next(env, "break")
}

func (d *scriptDebugger) At(ir *fast.Interp, env *fast.Env) fast.DebugOp {
	return d.next(env, "at")
}

// ---------------------------------------------------------------- probe machinery

type c12Probe struct {
	Name  string
	Debug bool   // needs OptDebugger (breakpoints)
	Src   string // what is evaluated (default: Name + "()")
}

func (p c12Probe) src() string {
	if p.Src != "" {
		return p.Src
	}
	return p.Name + "()"
}

var c12Probes = []c12Probe{{"P1", false, ""}, {"P2", false, ""}, {"P3", false, ""}, {"P4", false, ""}, {"P5", false, ""}, {"P6", true, ""}, {"P7", false, ""}, {"P8", false, ""}, {"P9", false, ""},
	// a compiled function contains the panic of a callback: the probe itself must go on undisturbed
	{"P11", false, ""},
	// top-level code (not a function body) with a deferred call of its own
	{"P10", false, "{\n\tdefer p10cleanup()\n\thook.Fault(\"p10-top\")\n\tp10n += p10body()\n\thook.Ev(\"p10\", p10n > 0)\n}"}}
var c13Targets = []string{"L1", "L2", "L3", "L4", "L5", "L6", "L7", "L8", "L9", "L10"}

const (
	entryEval = iota
	entryRunExpr
	entryREPL
	entryDebug
	nEntries
)

var entryNames = []string{"Eval", "Compile+RunExpr", "ParseEvalPrint", "DebugExpr"}

type c12Env struct {
	ir  *fast.Interp
	out *bytes.Buffer
	dbg *scriptDebugger
}

func newC12Env(debugger bool, trap bool) (*c12Env, string) {
	ir, out, lerr := newInterp("")
	if lerr != "" {
		return nil, lerr
	}
	g := &ir.Comp.Globals
	if debugger {
		g.Options |= base.OptDebugger
	}
	if trap {
		g.Options |= base.OptTrapPanic
	} else {
		g.Options &^= base.OptTrapPanic
	}
	e := &c12Env{ir: ir, out: out, dbg: &scriptDebugger{}}
	ir.SetDebugger(e.dbg)
	func() {
		defer func() {
			if r := recover(); r != nil {
				lerr = fmt.Sprint(r)
			}
		}()
		ir.Eval(c12p.Source)
	}()
	return e, lerr
}

// call evaluates "name()" through one of the public entry paths; a panic escaping is returned.
func (e *c12Env) call(entry int, src string) (escaped interface{}) {
	defer func() { escaped = recover() }()
	switch entry {
	case entryEval:
		e.ir.Eval(src)
	case entryRunExpr:
		e.ir.RunExpr(e.ir.Compile(src))
	case entryREPL:
		e.ir.ParseEvalPrint(src)
	case entryDebug:
		e.dbg.script, e.dbg.pos = []string{"step", "step", "next", "step", "finish", "step", "next", "continue"}, 0
		e.ir.DebugExpr(e.ir.Compile(src))
	}
	return nil
}

// battery runs the fixed battery plus a debug-stepped call and returns everything observed.
func (e *c12Env) battery() []string {
	ctx := &hook.Ctx{Ch: sim.NewReplay(0, nil).Stream("none")}
	hook.Cur = ctx
	var log []string
	// a plain evaluation must never enter the debugger (stale single-step mode would)
	e.dbg.Stops = nil
	e.dbg.script, e.dbg.pos = nil, 0
	if esc := e.call(entryEval, "Battery()"); esc != nil {
		log = append(log, "BATTERY-ESCAPED "+fmtPanic(esc))
	}
	log = append(log, ctx.Log...)
	log = append(log, fmt.Sprintf("debugger-stops-during-plain-evaluation %d", len(e.dbg.Stops)))
	// a debug-stepped call: the stop sequence depends on the call-depth bookkeeping
	e.dbg.Stops = nil
	e.dbg.script, e.dbg.pos = []string{"step", "step", "step", "next", "step", "finish", "step", "step", "continue"}, 0
	var vals string
	esc := func() (esc interface{}) {
		defer func() { esc = recover() }()
		vs, _ := e.ir.DebugExpr(e.ir.Compile("bstep(5)"))
		for _, v := range vs {
			vals += fmt.Sprint(v.Interface()) + " "
		}
		return nil
	}()
	log = append(log, "debug-call "+vals+fmtPanic(esc))
	log = append(log, e.dbg.Stops...)
	// an undebugged call after the debugged one must not stop at all
	e.dbg.Stops = nil
	if esc := e.call(entryEval, "bstep(6)"); esc != nil {
		log = append(log, "AFTER-DEBUG-ESCAPED "+fmtPanic(esc))
	}
	log = append(log, fmt.Sprintf("stops-without-debugging %d", len(e.dbg.Stops)))
	// an interpreted function value called directly by compiled code (no Eval around it):
	// under the debugger option its breakpoint reports call depths derived from whatever
	// "current frame" the previous evaluation left behind
	func() {
		defer func() {
			if r := recover(); r != nil {
				log = append(log, "DIRECT-CALL-ESCAPED "+fmtPanic(r))
			}
		}()
		e.dbg.Stops = nil
		e.dbg.script, e.dbg.pos = []string{"step", "step", "next", "finish", "continue"}, 0
		vs, _ := e.ir.Eval("bbreak")
		if f, ok := vs[0].Interface().(func(int) int); ok {
			log = append(log, fmt.Sprint("direct-call ", f(3)))
		} else {
			log = append(log, fmt.Sprintf("direct-call: unexpected type %T", vs[0].Interface()))
		}
		log = append(log, e.dbg.Stops...)
	}()
	// top-level code (not a function body) that defers a recover while nothing is panicking
	if esc := e.call(entryEval, "{\n\tdefer func() {\n\t\tbtop = recover()\n\t}()\n\tbcount++\n}"); esc != nil {
		log = append(log, "TOPLEVEL-DEFER-ESCAPED "+fmtPanic(esc))
	}
	if vs, _ := e.ir.Eval("btop"); len(vs) == 1 {
		log = append(log, fmt.Sprint("b-toplevel-recover ", vs[0].Interface()))
	}
	// plain expressions through the REPL path
	e.call(entryREPL, "bcount = 0")
	return log
}

var (
	c12Once   sync.Once
	c12Counts map[string][2]int   // probe -> (statements, hook.Fault calls) in a fault-free run
	c12Fresh  map[bool][]string   // battery log of a fresh interpreter, by debugger option
	c12RefLog map[string][]string // probe -> events of a fault-free run
	c12RefEsc map[string]string   // probe -> how the fault-free run ended
)

// c12Init measures the probes fault-free and records the reference battery logs.
func c12Init() {
	c12Once.Do(func() {
		c12Counts = map[string][2]int{}
		c12Fresh = map[bool][]string{}
		c12RefLog = map[string][]string{}
		c12RefEsc = map[string]string{}
		for _, dbg := range []bool{false, true} {
			e, lerr := newC12Env(dbg, true)
			if lerr != "" {
				panic(sim.HarnessFault{Msg: "c12 probes do not load: " + lerr})
			}
			c12Fresh[dbg] = e.battery()
		}
		for _, name := range append(probeNames(), c13Targets...) {
			e, _ := newC12Env(true, true)
			n := 0
			mainG := gls.GoID()
			hs.Stmt = func(env *fast.Env, pos token.Pos) {
				if gls.GoID() == mainG { // statements of the evaluating goroutine only
					n++
				}
			}
			ctx := &hook.Ctx{Ch: sim.NewReplay(0, nil).Stream("none")}
			hook.Cur = ctx
			esc := e.call(entryEval, c12Src(name))
			hs.Stmt = nil
			c12RefEsc[name] = fmtPanic(esc)
			c12Counts[name] = [2]int{n, ctx.NFault}
			c12RefLog[name] = append([]string(nil), ctx.Log...)
		}
	})
}

// c12Src is what is evaluated for probe / target name
func c12Src(name string) string {
	for _, p := range c12Probes {
		if p.Name == name {
			return p.src()
		}
	}
	return name + "()"
}

func probeNames() []string {
	var l []string
	for _, p := range c12Probes {
		l = append(l, p.Name)
	}
	return l
}

// enum entry: [probe, mode(0 stmt,1 hook), k, k2(0 none), entry, flags(bit0 debugger, bit1 trap), valkind]
func c12Enumerate(tier string) [][]uint32 {
	c12Init()
	var out [][]uint32
	for pi, p := range c12Probes {
		cnt := c12Counts[p.Name]
		for mode := 0; mode < 2; mode++ {
			n := cnt[mode]
			for k := 1; k <= n; k++ {
				entries := []int{(k + pi) % nEntries}
				if tier == "thorough" {
					entries = []int{0, 1, 2, 3}
				}
				for _, en := range entries {
					flags := uint32((k/2 + pi) % 4)
					if p.Debug || en == entryDebug {
						flags |= 1
					}
					out = append(out, []uint32{uint32(pi), uint32(mode), uint32(k), 0, uint32(en), flags, uint32((k + en) % 5)})
					if mode == 1 && !p.Debug && en != entryDebug && p.Src == "" {
						// (not for top-level code: an evaluation nested in running TOP-LEVEL code reuses the
						// interpreter's one top-level statement list, a re-entrancy limit unrelated to panics)
						// the same compiled call runs a nested evaluation that panics and is recovered there
						out = append(out, []uint32{uint32(pi), 1, uint32(k), 0, uint32(en), (flags &^ 1) | 8, 0})
					}
					if tier == "thorough" || (k+pi)%3 == 0 {
						// the same point with an interrupt requested at the instant of the panic
						out = append(out, []uint32{uint32(pi), uint32(mode), uint32(k), 0, uint32(en), flags | 4, uint32((k + en + 1) % 5)})
					}
					if tier == "thorough" && mode == 0 {
						// pairs: a second panic while the first is being handled (statements keep
						// being counted through the deferred calls that run during unwinding)
						for d := 1; d <= 12; d++ {
							out = append(out, []uint32{uint32(pi), 0, uint32(k), uint32(k + d), uint32(en), flags, uint32((k + d) % 5)})
						}
					}
				}
			}
		}
	}
	return out
}

func faultValue(kind int, tag string) interface{} {
	switch kind {
	case 1:
		return "injected:" + tag
	case 2:
		return fmt.Errorf("injected error %s", tag)
	case 3:
		return 31337
	case 4:
		return &injectedPanic{tag}
	}
	return injectedPanic{tag}
}

func init() {
	register(&Prop{
		ID:    "C12",
		Level: "fault_enumeration",
		Rule: "enumeration of (probe program, fault point): for each of 11 probe programs (nested calls and loops; defers that recover / modify named results / call deeper; closures; single-goroutine select; a program panic re-panicked by a deferred call; breakpoints under the debugger option; directly deferred compiled functions and builtins running while the function is already panicking; a long loop calling a compiled function; a block of top-level code with its own deferred call; a loop whose callbacks are run, and their panics contained, by a compiled function) a panic is injected before EVERY executed statement k = 1..N (statement seam) and inside EVERY call of a compiled function j = 1..M, entered through Eval / Compile+RunExpr / ParseEvalPrint / DebugExpr with the debugger and trap-panic options varied; every compiled-call point is repeated with a NESTED evaluation that panics and is recovered by the compiled function (the probe must then finish undisturbed); every third point (thorough: every point) is repeated with an interrupt requested at the instant the panic is raised; thorough adds all four entry paths per point and pairs (k, k+d), d = 1..12, where the second panic lands while the first is being handled. " +
			"non-trivial = the injected panic fired; distinct = distinct (probe, kind, k, k2, entry, options)",
		Runs:      func(tier string) int { return 0 },
		Enumerate: c12Enumerate,
		WallBudget: func(tier string) time.Duration {
			if tier == "thorough" {
				return 40 * time.Minute
			}
			return 2 * time.Minute
		},
		Run:        runC12,
		FaultKinds: []string{"panic_before_statement", "panic_inside_compiled_function", "second_panic_while_unwinding", "panic_escaped_evaluation", "panic_recovered_by_program", "panic_trapped_by_repl_path", "evaluation_aborted_after_statement_budget", "interrupt_requested_with_the_panic", "nested_evaluation_aborted_inside_compiled_call", "panic_contained_by_compiled_caller"},
		ProbeNames: []string{"entry_Eval", "entry_Compile+RunExpr", "entry_ParseEvalPrint", "entry_DebugExpr", "option_debugger", "option_trap_panic", "battery_events_compared"},
		RealVsStub: []string{
			"real: every line of the interpreter (executor, deferred restore, RunExpr/DebugExpr/ParseEvalPrint, prepareEnv); the battery and the probes are interpreted code",
			"stub: only the fault trigger (statement seam H1 / compiled hook raising the panic)",
		},
		Assumptions: []string{
			"'the results it would produce had the aborted evaluation never run' is realised as: a fresh interpreter that loaded the same definitions runs the same battery (defer order, recover inside/outside defers and in a helper, re-panic, named results, closures over globals, a goroutine, a long loop, deep recursion, a debug-stepped call with recorded stops, an undebugged call that must not stop)",
			"side effects of the aborted code are confined to globals the battery only reads through invariants",
		},
	})
}

func runC12(t *testing.T, ch *sim.Choices, tier string) (o Outcome) {
	c12Init()
	en := ch.Stream("enum")
	pi, mode, k, k2 := en.Draw(len(c12Probes)), en.Draw(2), en.Draw(1<<20), en.Draw(1<<20)
	entry, flags, vk := en.Draw(nEntries), en.Draw(16), en.Draw(5)
	p := c12Probes[pi]
	debugger, trap := flags&1 != 0 || p.Debug || entry == entryDebug, flags&2 != 0
	withInterrupt := flags&4 != 0       // an interrupt is requested at the instant the panic is raised
	nested := flags&8 != 0 && mode == 1 // the panic aborts an evaluation NESTED in the probe's (started and recovered by the compiled function): the probe itself goes on
	e, lerr := newC12Env(debugger, trap)
	if lerr != "" {
		o.fail("interp-error", "c12p|load", lerr)
		return
	}
	o.probe("entry_"+entryNames[entry], 1)
	if debugger {
		o.probe("option_debugger", 1)
	}
	if trap {
		o.probe("option_trap_panic", 1)
	}
	// --- the aborted evaluation
	fired := 0
	ctx := &hook.Ctx{Ch: sim.NewReplay(0, nil).Stream("none")}
	hook.Cur = ctx
	nstmt := 0
	budget := 40*c12Counts[p.Name][0] + 400
	exceeded := false
	if mode == 0 {
		hs.Stmt = func(env *fast.Env, pos token.Pos) {
			nstmt++
			if nstmt == k || (k2 != 0 && nstmt == k2) {
				fired++
				if withInterrupt {
					e.ir.Interrupt(os.Interrupt)
				}
				panic(faultValue(vk, fmt.Sprint("stmt", nstmt)))
			}
			if nstmt > budget {
				// the evaluation does not terminate (seen when single-stepping through a function
				// that recovers a panic: a debugger defect, reported under C19): abort it. For C12
				// this is one more panic escaping the evaluation at an arbitrary point.
				exceeded = true
				panic(injectedPanic{"statement budget exceeded"})
			}
		}
	} else {
		hs.Stmt = func(env *fast.Env, pos token.Pos) {
			nstmt++
			if nstmt > budget {
				exceeded = true
				panic(injectedPanic{"statement budget exceeded"})
			}
		}
		ctx.FaultFn = func(site string) {
			if ctx.NFault == k {
				fired++
				if nested {
					func() {
						defer func() { recover() }()
						e.ir.Eval("{\n\ty := 1\n\t_ = y\n\tpanic(\"nested evaluation\")\n}")
					}()
					return
				}
				if withInterrupt {
					e.ir.Interrupt(os.Interrupt)
				}
				panic(faultValue(vk, fmt.Sprint("hook", k, site)))
			}
		}
	}
	nspin := 0
	hs.Spin = func(env *fast.Env) {
		nspin++
		if nspin > budget {
			exceeded = true
			panic(injectedPanic{"statement budget exceeded (spinning)"})
		}
	}
	esc := e.call(entry, p.src())
	hs.Stmt, hs.Spin = nil, nil
	ctx.FaultFn = nil
	o.Steps = nstmt
	if fired > 0 {
		if mode == 0 {
			o.fault("panic_before_statement", 1)
		} else {
			o.fault("panic_inside_compiled_function", 1)
		}
	}
	if fired > 1 {
		o.fault("second_panic_while_unwinding", 1)
	}
	if fired > 0 && withInterrupt {
		o.fault("interrupt_requested_with_the_panic", 1)
	}
	if exceeded {
		o.fault("evaluation_aborted_after_statement_budget", 1)
	}
	switch {
	case esc != nil:
		o.fault("panic_escaped_evaluation", 1)
	case fired > 0 && entry == entryREPL && trap:
		o.fault("panic_trapped_by_repl_path", 1)
	case fired > 0:
		o.fault("panic_recovered_by_program", 1)
	}
	if nested && fired > 0 {
		o.fault("nested_evaluation_aborted_inside_compiled_call", 1)
		// the outer evaluation was not aborted: it must finish exactly as if undisturbed
		wantEsc := c12RefEsc[p.Name]
		if entry == entryREPL && trap {
			wantEsc = fmtPanic(nil) // the REPL path prints a panic of the probe instead of letting it escape
		}
		if fmtPanic(esc) != wantEsc || exceeded {
			o.fail("nested-abort-disturbs-outer", normKey("c12", p.Name, "escaped"), fmt.Sprintf("probe %s: a nested evaluation started by compiled call %d panicked and was recovered by the compiled function; the outer evaluation then ended with %s, undisturbed it ends with %s\noutput: %s", p.Name, k, fmtPanic(esc), wantEsc, tailStr(e.out.String(), 600)))
			return
		}
		if i, x, y := firstDiff(ctx.Log, c12RefLog[p.Name]); i >= 0 {
			o.fail("nested-abort-disturbs-outer", normKey("c12", p.Name, stripDigits(x), stripDigits(y)), fmt.Sprintf("probe %s: after the nested evaluation started by compiled call %d was aborted, event #%d of the outer evaluation is %q, undisturbed %q", p.Name, k, i, x, y))
			return
		}
	}
	if p.Name == "P11" && mode == 1 && !nested && !withInterrupt && fired > 0 {
		o.fault("panic_contained_by_compiled_caller", 1)
		// the injected panic was raised inside a callback and recovered by the compiled function
		// that called it: the probe's own evaluation goes on and must end as if undisturbed
		last := ""
		if n := len(ctx.Log); n > 0 {
			last = ctx.Log[n-1]
		}
		ref := c12RefLog[p.Name]
		if fmtPanic(esc) != c12RefEsc[p.Name] || exceeded || last != ref[len(ref)-1] {
			o.fail("contained-panic-disturbs-caller", normKey("c12", p.Name, stripDigits(fmtPanic(esc))), fmt.Sprintf("probe P11: the panic injected in callback %d was recovered by the compiled function that called the callback; the probe then ended with %s and last event %q, undisturbed it ends with %s and %q\noutput: %s", k, fmtPanic(esc), last, c12RefEsc[p.Name], ref[len(ref)-1], tailStr(e.out.String(), 600)))
			return
		}
	}
	// --- the battery, against the fresh interpreter
	got := e.battery()
	want := c12Fresh[debugger]
	o.probe("battery_events_compared", len(want))
	o.Nontrivial = fired > 0
	o.Hash = sim.Mix(uint64(pi), uint64(mode), uint64(k), uint64(k2), uint64(entry), uint64(flags))
	o.EventHash = hashStrings(hashStrings(0, got), []string{fmtPanic(esc)})
	desc := fmt.Sprintf("probe %s, panic %s %d (second at %d), entry %s, debugger=%v trap=%v interrupt=%v, value kind %d; escaped=%s", p.Name, []string{"before statement", "inside compiled call"}[mode], k, k2, entryNames[entry], debugger, trap, withInterrupt, vk, fmtPanic(esc))
	o.Sample = map[string]interface{}{"case": desc, "battery": got}
	if i, x, y := firstDiff(got, want); i >= 0 {
		o.fail("battery-mismatch", normKey("c12", stripDigits(x), stripDigits(y)),
			fmt.Sprintf("%s\nafter the aborted evaluation battery observation #%d is %q, a fresh interpreter gives %q\nbattery: %v\noutput: %s", desc, i, x, y, got, tailStr(e.out.String(), 600)))
	}
	return
}

func tailStr(s string, n int) string {
	s = strings.TrimSpace(s)
	if len(s) > n {
		return s[len(s)-n:]
	}
	return s
}
