package simcheck

import (
	"bufio"
	"bytes"
	"fmt"
	"io"
	"testing"
	"time"

	"github.com/cosmos72/gomacro/base"
	"github.com/cosmos72/gomacro/fast"

	"verif/sim"
)

type chunk struct {
	Src   string
	First int
	Err   error
}

// readChunks drives base.ReadMultiline (directly, or through Interp.Read) until EOF.
func readChunks(rl base.Readline, viaInterp *fast.Interp, allComments bool) []chunk {
	var out []chunk
	opts := base.ReadOptions(0)
	if allComments {
		opts = base.ReadOptCollectAllComments
	}
	for i := 0; i < 4000; i++ {
		if viaInterp != nil {
			src, first := viaInterp.Read()
			if len(src) == 0 && first < 0 {
				return out
			}
			out = append(out, chunk{src, first, nil})
			continue
		}
		src, first, err := base.ReadMultiline(rl, opts, "")
		out = append(out, chunk{src, first, err})
		if err == io.EOF || err == io.ErrUnexpectedEOF {
			return out
		}
	}
	panic(sim.HarnessFault{Msg: "reader never reported EOF"})
}

func concatChunks(cs []chunk) []byte {
	var b bytes.Buffer
	for _, c := range cs {
		b.WriteString(c.Src)
	}
	return b.Bytes()
}

func init() {
	register(&Prop{
		ID:    "C26",
		Level: "exploration",
		Rule: "one run = one stream assembled from 1..9 drawn statement templates (57 templates whose token structure is known by construction: operators / commas / brackets at line end, ++/-- vs unary + -, keywords that continue on the next line, strings with escapes, raw strings spanning lines, runes, line and block comments between operands, blank lines, the ~ forms, optional '#!' first line, optional CRLF line ends, optional missing final newline) x one delivery schedule (bufio over an io.Reader returning seeded 1..7-byte fragments and (0,nil) reads / a line source returning one line per call / the whole buffer handed to bufio in one Read) x one fault (none / EOF at an arbitrary byte, biased into strings, comments and open brackets / a non-EOF read error at an arbitrary byte, followed or not by more data); each stream is also read line by line fault-free as its own reference; " +
			"non-trivial = at least 2 templates and (a fault that fired or a fragmenting schedule); distinct = distinct (stream, schedule, fault position)",
		Runs: func(tier string) int {
			if tier == "thorough" {
				return 2000000
			}
			return 15000
		},
		WallBudget: func(tier string) time.Duration {
			if tier == "thorough" {
				return 25 * time.Minute
			}
			return 60 * time.Second
		},
		Run:        runC26,
		FaultKinds: []string{"eof_at_arbitrary_byte", "eof_inside_token_or_open_bracket", "read_error_then_eof", "read_error_then_more_data", "zero_byte_reads", "fragmented_delivery", "missing_final_newline"},
		ProbeNames: []string{"chunks_checked", "chunks_parsed", "crlf_streams", "shebang_streams", "via_Interp.Read", "line_source_delivery", "whole_buffer_delivery", "unexpected_eof_reported"},
		RealVsStub: []string{
			"real: base.ReadMultiline, base.BufReadline, bufio.Reader, Interp.Read / Globals.ReadMultiline, the repository's parser (chunks must parse on their own)",
			"stub: the byte source (simulated io.Reader / simulated base.Readline)",
		},
		Assumptions: []string{
			"U+2029 is outside the alphabet: both Readline implementations deliberately rewrite it to a newline",
			"after a non-EOF read error nothing is required of the rest of the stream (the reader restarts with fresh state in the middle of a statement, so the rest is not Go source from its point of view); up to and including the chunk carrying the error the chunks must be lossless, end at boundaries, and the error must surface exactly once",
			"'.' at line end is not a continuation the property names; it is not used",
		},
	})
}

func runC26(t *testing.T, ch *sim.Choices, tier string) (o Outcome) {
	gen := ch.Stream("gen")
	npieces := 1 + gen.Draw(9)
	crlf := gen.Draw(5) == 4
	shebang := gen.Draw(6) == 5
	noNL := gen.Draw(4) == 3
	g := genC26(gen, npieces, crlf, shebang, noNL)
	if crlf {
		o.probe("crlf_streams", 1)
	}
	if shebang {
		o.probe("shebang_streams", 1)
	}
	if noNL {
		o.fault("missing_final_newline", 1)
	}
	n := len(g.Data)
	desc := fmt.Sprintf("templates %v crlf=%v shebang=%v no-final-newline=%v", g.Names, crlf, shebang, noNL)
	fail := func(class, key, msg string, cs []chunk) {
		var l []string
		for i, c := range cs {
			l = append(l, fmt.Sprintf("chunk %d first=%d err=%v: %q", i, c.First, c.Err, c.Src))
		}
		o.fail(class, normKey("c26", key), desc+"\n"+msg+"\ninput: "+fmt.Sprintf("%q", g.Data)+"\n"+joinLines(l))
	}
	// ---- reference: line by line, fault free
	refR := &sim.FaultyReader{Data: g.Data, F: sim.StreamFaults{MaxFrag: 1 << 20, CutAt: -1, ErrAt: -1}, Ch: ch.Stream("ref")}
	ref := readChunks(base.MakeBufReadline(bufio.NewReader(refR)), nil, false)
	if !checkFaultFree(&o, g, ref, n, true, fail) {
		return
	}
	// every chunk with tokens must parse on its own
	ir, _, _ := newInterp("")
	for _, c := range ref {
		if c.First >= 0 {
			o.probe("chunks_parsed", 1)
			if msg := tryParse(ir, c.Src); msg != "" {
				fail("chunk-does-not-parse", "parse", fmt.Sprintf("chunk %q does not parse on its own: %s", c.Src, msg), ref)
				return
			}
		}
	}
	// ---- the delivery schedule under test
	mode := gen.Draw(3)
	fk := gen.Draw(5)
	f := sim.StreamFaults{CutAt: -1, ErrAt: -1}
	switch mode {
	case 0:
		f.MaxFrag = 1 + gen.Draw(7)
		f.ZeroReads = gen.Draw(2) == 1
		o.fault("fragmented_delivery", 1)
	case 1:
		// a line source with the contract both real Readline implementations follow:
		// exactly one line per call
		f.Lines = 1
		o.probe("line_source_delivery", 1)
	case 2:
		// the whole buffer is available to bufio in a single Read
		f.MaxFrag = 1 << 20
		o.probe("whole_buffer_delivery", 1)
	}
	pickOffset := func() int {
		// bias into in-flight state: inside a token or with open brackets
		if gen.Draw(2) == 0 {
			var cand []int
			for off := 1; off < n; off++ {
				if g.InsideAt(off) || g.DepthAt(off) > 0 {
					cand = append(cand, off)
				}
			}
			if len(cand) > 0 {
				return cand[gen.Draw(len(cand))]
			}
		}
		return gen.Draw(n + 1)
	}
	faultAt := -1
	switch fk {
	case 1, 2:
		faultAt = pickOffset()
		f.CutAt = faultAt
	case 3:
		faultAt = pickOffset()
		f.ErrAt = faultAt
	case 4:
		faultAt = pickOffset()
		f.ErrAt, f.ErrResume = faultAt, true
	}
	var rl base.Readline
	var delivered func() int
	var stats *sim.StreamStats
	if mode != 1 {
		fr := &sim.FaultyReader{Data: g.Data, F: f, Ch: ch.Stream("io")}
		rl, delivered, stats = base.MakeBufReadline(bufio.NewReader(fr)), fr.Pos, &fr.Stats
	} else {
		lr := &sim.LineReader{Data: g.Data, F: f, Ch: ch.Stream("io")}
		rl, delivered, stats = lr, lr.Pos, &lr.Stats
	}
	var via *fast.Interp
	if fk == 0 && gen.Draw(3) == 0 {
		via = ir
		via.Comp.Globals.Readline = rl
		o.probe("via_Interp.Read", 1)
	}
	got := readChunks(rl, via, false)
	o.fault("zero_byte_reads", stats.ZeroReads)
	o.Steps = len(got)
	o.Hash = sim.Mix(sim.HashString(string(g.Data)), uint64(mode), uint64(fk), uint64(faultAt+1), uint64(f.MaxFrag), uint64(f.Lines))
	o.EventHash = hashStrings(0, chunkStrings(got))
	o.Nontrivial = npieces >= 2 && (fk != 0 || mode == 0)
	o.Sample = map[string]interface{}{"input": string(g.Data), "templates": g.Names, "delivery": []string{"bufio-fragments", "line-source", "whole-buffer"}[mode], "faults": fmt.Sprintf("%+v", f), "chunks": chunkStrings(got)}
	nd := delivered()
	lossless := got
	if fk == 3 || fk == 4 {
		// after a non-EOF error the reader restarts with fresh state in the middle of a
		// statement: what follows is no longer Go source from its point of view (e.g. the tail
		// of a raw string reads as an unterminated string literal, an error path that drops
		// the rest of the line). Losslessness is required up to and including the chunk that
		// carried the error.
		for i, c := range got {
			if c.Err == sim.ErrInjected {
				lossless = got[:i+1]
				nd = len(concatChunks(lossless))
				break
			}
		}
	}
	// ---- always: losslessness
	if cat := concatChunks(lossless); nd > len(g.Data) || !bytes.Equal(cat, g.Expected(nd)) {
		fail("lossy", "concat", fmt.Sprintf("delivery %+v: the chunks do not concatenate to the %d bytes delivered:\n got %q\nwant %q", f, nd, cat, g.Expected(nd)), got)
		return
	}
	switch fk {
	case 0:
		{
			// same lines => exactly the same chunks as the reference
			if i, x, y := firstDiff(chunkStrings(got), chunkStrings(ref)); i >= 0 && via == nil {
				fail("schedule-dependent", "chunks-differ", fmt.Sprintf("delivery %+v gives chunk #%d = %s, line-by-line delivery gives %s", f, i, x, y), got)
				return
			}
		}
		checkFaultFree(&o, g, got, n, false, fail)
	case 1, 2:
		o.fault("eof_at_arbitrary_byte", 1)
		if g.InsideAt(faultAt) || g.DepthAt(faultAt) > 0 {
			o.fault("eof_inside_token_or_open_bracket", 1)
		}
		// all chunks but the last end at boundaries; the error kind tells whether brackets were open
		if !checkEnds(&o, g, got[:len(got)-1], fail) {
			return
		}
		last := got[len(got)-1]
		wantErr := io.EOF
		if faultAt <= n && g.DepthAt(min(faultAt, n)) > 0 && len(last.Src) > 0 {
			wantErr = io.ErrUnexpectedEOF
		}
		if wantErr == io.ErrUnexpectedEOF {
			o.probe("unexpected_eof_reported", 1)
		}
		if last.Err != wantErr && !(last.Err == io.EOF && len(last.Src) == 0) {
			fail("wrong-error-kind", "eof-kind", fmt.Sprintf("input cut at byte %d (open brackets there: %d): the reader reported %v, want %v", faultAt, g.DepthAt(min(faultAt, n)), last.Err, wantErr), got)
		}
	case 3, 4:
		if fk == 3 {
			o.fault("read_error_then_eof", 1)
		} else {
			o.fault("read_error_then_more_data", 1)
		}
		nerr, before := 0, len(got)
		for i, c := range got {
			if c.Err == sim.ErrInjected {
				nerr++
				if i < before {
					before = i
				}
			}
		}
		if stats.Errors > 0 && nerr != 1 {
			fail("error-not-surfaced", "injected-error", fmt.Sprintf("the injected read error at byte %d surfaced %d times, want exactly once", faultAt, nerr), got)
			return
		}
		checkEnds(&o, g, got[:before], fail)
	}
	return
}

func chunkStrings(cs []chunk) []string {
	var l []string
	for _, c := range cs {
		l = append(l, fmt.Sprintf("%q first=%d err=%v", c.Src, c.First, c.Err))
	}
	return l
}

// checkEnds: every chunk ends at a constructed statement boundary, outside tokens, brackets balanced
func checkEnds(o *Outcome, g *genStream, cs []chunk, fail func(class, key, msg string, cs []chunk)) bool {
	off := 0
	for i, c := range cs {
		off += len(c.Src)
		o.probe("chunks_checked", 1)
		switch {
		case g.InsideAt(off):
			fail("cut-inside-token", "inside", fmt.Sprintf("chunk %d ends at byte %d, inside a string, raw string, rune or comment", i, off), cs)
			return false
		case g.DepthAt(off) > 0:
			fail("cut-inside-brackets", "brackets", fmt.Sprintf("chunk %d ends at byte %d with %d brackets open", i, off, g.DepthAt(off)), cs)
			return false
		case !g.IsBoundary(off):
			fail("cut-inside-statement", "statement", fmt.Sprintf("chunk %d ends at byte %d, which is not a statement boundary (a continued statement was cut)", i, off), cs)
			return false
		}
	}
	return true
}

func checkFaultFree(o *Outcome, g *genStream, cs []chunk, n int, isRef bool, fail func(class, key, msg string, cs []chunk)) bool {
	if cat := concatChunks(cs); !bytes.Equal(cat, g.Expected(n)) {
		fail("lossy", "concat", fmt.Sprintf("the chunks do not concatenate to the input:\n got %q\nwant %q", cat, g.Expected(n)), cs)
		return false
	}
	if len(cs) > 0 {
		if last := cs[len(cs)-1]; last.Err != nil && last.Err != io.EOF {
			fail("wrong-error-kind", "eof-kind-complete-input", fmt.Sprintf("complete input ended with %v, want EOF", last.Err), cs)
			return false
		}
	}
	return checkEnds(o, g, cs, fail)
}

func tryParse(ir *fast.Interp, src string) (msg string) {
	defer func() {
		if r := recover(); r != nil {
			msg = fmt.Sprint(r)
		}
	}()
	ir.Comp.ParseBytes([]byte(src))
	return ""
}
