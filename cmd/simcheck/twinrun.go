package simcheck

import (
	"bytes"
	"fmt"
	"sort"
	"strings"
	"testing"

	"github.com/cosmos72/gomacro/fast"

	"verif/hook"
	"verif/sim"
)

// twinSpec is one workload template: the same source compiled natively and interpreted.
type twinSpec struct {
	Name        string
	Source      string
	Native      func()
	Determinate string // "all": every task's event sequence is schedule independent; "=": only events tagged "=..."
	Model       bool   // communications are declared with hook.Pre/Post: history is replayed on the channel model
	Options     func(ir *fast.Interp, ch *sim.Stream)
}

type concRun struct {
	Outcome   string
	EndState  []string
	Logs      map[string][]string // task -> events with step stamps
	Panics    map[string]string
	Released  []string
	SchedHash uint64
	Steps     int
	Switches  int
	MaxParked int
	SimNanos  int64
	Sample    []sim.Decision
	Foreign   []string
	Leaked    bool
	Yields    int
	InterpErr string // panic escaping Eval of the template source (before the run)
	Output    string
}

// newInterp returns a quiet interpreter with the template source loaded.
func newInterp(src string) (ir *fast.Interp, out *bytes.Buffer, err string) {
	ir = fast.New()
	out = &bytes.Buffer{}
	g := &ir.Comp.Globals
	g.Stdout, g.Stderr = out, out
	defer func() {
		if r := recover(); r != nil {
			err = fmt.Sprintf("loading template: %v", r)
		}
	}()
	if src != "" {
		ir.Eval(src)
	}
	return
}

func installSchedHooks(s *sim.Sched) {
	hs.S = s
	hs.StmtYield = s.Cfg.StmtYield
	hs.ProtoYield = s.Cfg.ProtoYield
}

func clearHooks() {
	hs = hookState{}
}

// runConcurrent executes spec once under the seeded scheduler, natively or interpreted.
// extra, if not nil, is called inside the bubble after the scheduler exists and before the run.
func runConcurrent(t *testing.T, ch *sim.Choices, cfg sim.SchedConfig, interp bool, spec *twinSpec, entry string, extra func(s *sim.Sched, ir *fast.Interp)) *concRun {
	r := &concRun{Logs: map[string][]string{}, Panics: map[string]string{}}
	var ir *fast.Interp
	var out *bytes.Buffer
	if interp {
		var err string
		ir, out, err = newInterp(spec.Source)
		if err != "" {
			r.InterpErr = err
			return r
		}
		if spec.Options != nil {
			spec.Options(ir, ch.Stream("gen"))
		}
	}
	var s *sim.Sched
	r.Leaked = sim.RunBubble(t, func() {
		s = sim.NewSched(ch, cfg)
		hook.Cur = &hook.Ctx{S: s, Interp: interp}
		if interp {
			installSchedHooks(s)
			if extra != nil {
				extra(s, ir)
			}
			s.Run(func() { ir.Eval(entry) })
		} else {
			if extra != nil {
				extra(s, nil)
			}
			s.Run(spec.Native)
		}
	})
	clearHooks()
	r.Outcome, r.EndState, r.Released = s.Outcome, s.EndState, s.Released
	r.SchedHash, r.Steps, r.Switches, r.MaxParked = s.SchedHash, s.Step, s.Switches, s.MaxParked
	r.SimNanos, r.Sample, r.Foreign = int64(s.SimTime), s.Sample, s.ForeignLog
	for _, tk := range s.Tasks() {
		r.Logs[tk.Name] = tk.Log
		r.Yields += tk.Yields()
		if tk.Panic != "" {
			r.Panics[tk.Name] = tk.Panic
		}
	}
	if out != nil {
		r.Output = out.String()
	}
	return r
}

func stripStamp(e string) string {
	if i := strings.IndexByte(e, '|'); i >= 0 {
		return e[i+1:]
	}
	return e
}

// flatLogs renders per-task logs in task-name order. stamps: keep step stamps.
// filter: "" all events, "=" only events whose text starts with "=".
func flatLogs(logs map[string][]string, stamps bool, filter string) []string {
	names := make([]string, 0, len(logs))
	for k := range logs {
		names = append(names, k)
	}
	sort.Strings(names)
	var out []string
	for _, n := range names {
		for _, e := range logs[n] {
			txt := stripStamp(e)
			if filter != "" && !strings.HasPrefix(txt, filter) {
				continue
			}
			if stamps {
				out = append(out, n+": "+e)
			} else {
				out = append(out, n+": "+txt)
			}
		}
	}
	return out
}

func firstDiff(a, b []string) (int, string, string) {
	for i := 0; i < len(a) || i < len(b); i++ {
		x, y := "<end>", "<end>"
		if i < len(a) {
			x = a[i]
		}
		if i < len(b) {
			y = b[i]
		}
		if x != y {
			return i, x, y
		}
	}
	return -1, "", ""
}

func hashStrings(h uint64, l []string) uint64 {
	for _, s := range l {
		h = sim.Mix(h, sim.HashString(s))
	}
	return h
}

func (r *concRun) hashAll() uint64 {
	h := sim.HashString(r.Outcome)
	h = hashStrings(h, r.EndState)
	h = hashStrings(h, flatLogs(r.Logs, true, ""))
	h = hashStrings(h, r.Released)
	names := make([]string, 0, len(r.Panics))
	for k := range r.Panics {
		names = append(names, k)
	}
	sort.Strings(names)
	for _, k := range names {
		h = sim.Mix(h, sim.HashString(k+"="+r.Panics[k]))
	}
	return h
}

func (r *concRun) blockedSet() map[string]bool {
	m := map[string]bool{}
	for _, e := range r.EndState {
		if strings.HasSuffix(e, ":blocked") {
			m[strings.TrimSuffix(e, ":blocked")] = true
		}
	}
	return m
}

func (r *concRun) summary(n int) []string {
	l := flatLogs(r.Logs, true, "")
	if len(l) > n {
		l = append(l[:n:n], fmt.Sprintf("... %d more events", len(l)-n))
	}
	return append([]string{fmt.Sprintf("outcome=%s steps=%d end=%v panics=%v", r.Outcome, r.Steps, r.EndState, r.Panics)}, l...)
}

// normalisedKey turns an event text into something stable enough to identify a finding:
// digits are kept (they are program values), step stamps are not part of it.
func normKey(parts ...string) string {
	return strings.Join(parts, "|")
}
