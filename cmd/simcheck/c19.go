package simcheck

import (
	"fmt"
	"go/token"
	"io"
	"regexp"
	"strconv"
	"strings"
	"testing"
	"time"

	"github.com/cosmos72/gomacro/base"
	"github.com/cosmos72/gomacro/fast"
	"github.com/cosmos72/gomacro/fast/debug"

	"verif/hook"
	"verif/sim"
	"verif/twin/c19a"
)

type dbgEvent struct {
	Kind  string // exec | at | break | cmd
	Depth int
	Line  int
	Cmd   string
}

func (e dbgEvent) String() string {
	if e.Kind == "cmd" {
		return fmt.Sprintf("cmd %q", e.Cmd)
	}
	return fmt.Sprintf("%s depth=%d line=%d", e.Kind, e.Depth, e.Line)
}

type dbgLog struct {
	ev     []dbgEvent
	inEval bool // the debugger is evaluating an expression of the user: not program statements
}

// ---- driver A: the real debugger, fed by a simulated user and a captured Stdout

var c19StopRe = regexp.MustCompile(`^// (stopped|breakpoint) at (?:\S+:(\d+):\d+ )?IP=\d+, call depth=(\d+)`)

type stopWriter struct {
	log *dbgLog
	buf []byte
}

func (w *stopWriter) Write(p []byte) (int, error) {
	w.buf = append(w.buf, p...)
	for {
		i := strings.IndexByte(string(w.buf), '\n')
		if i < 0 {
			break
		}
		line := string(w.buf[:i])
		w.buf = w.buf[i+1:]
		if m := c19StopRe.FindStringSubmatch(line); m != nil {
			kind := "at"
			if m[1] == "breakpoint" {
				kind = "break"
			}
			ln := -1 // a stop reported without position: end of function
			if m[2] != "" {
				ln, _ = strconv.Atoi(m[2])
			}
			d, _ := strconv.Atoi(m[3])
			w.log.ev = append(w.log.ev, dbgEvent{Kind: kind, Depth: d, Line: ln})
		}
	}
	return len(p), nil
}

var c19Commands = []string{"step", "next", "finish", "continue", "s", "n", "f", "c", "", "print 40+2", "print leaf(7)", "vars", "backtrace", "bogus", "step", "next", "next", "finish"}

type userSim struct {
	log  *dbgLog
	ch   *sim.Stream
	eof  bool
	n    int
	nEOF int
	last string // last command the debugger recognised: an empty line repeats it
}

func (u *userSim) Read(prompt string) ([]byte, error) {
	u.log.inEval = false
	u.n++
	if u.eof || u.n > 400 {
		u.nEOF++
		u.log.ev = append(u.log.ev, dbgEvent{Kind: "cmd", Cmd: "<EOF>"})
		return nil, io.EOF
	}
	if u.ch.Draw(40) == 39 {
		u.eof = true
		u.nEOF++
		u.log.ev = append(u.log.ev, dbgEvent{Kind: "cmd", Cmd: "<EOF>"})
		return nil, io.EOF
	}
	cmd := c19Commands[u.ch.Draw(len(c19Commands))]
	u.log.ev = append(u.log.ev, dbgEvent{Kind: "cmd", Cmd: cmd})
	if cmd != "" && cmd != "bogus" {
		u.last = cmd
	}
	if eff := u.last; strings.HasPrefix(cmd, "print") || (cmd == "" && strings.HasPrefix(eff, "print")) {
		u.log.inEval = true
	}
	return []byte(cmd + "\n"), nil
}

// ---- driver B: a direct implementation of the fast.Debugger interface

type directDebugger struct {
	log  *dbgLog
	ch   *sim.Stream
	fset func(token.Pos) int
}

func (d *directDebugger) op(env *fast.Env, kind string) fast.DebugOp {
	line := -1 // end of function: no statement left
	if env.IP < len(env.DebugPos) {
		line = d.fset(env.DebugPos[env.IP])
		if line == 0 && kind == "at" {
			// synthetic statement: keep going as the real debugger does
			return fast.DebugOp{Depth: env.Run.DebugDepth}
		}
	}
	d.log.ev = append(d.log.ev, dbgEvent{Kind: kind, Depth: env.CallDepth, Line: line})
	cmd := []string{"step", "next", "finish", "continue"}[d.ch.Draw(4)]
	d.log.ev = append(d.log.ev, dbgEvent{Kind: "cmd", Cmd: cmd})
	switch cmd {
	case "step":
		return fast.DebugOpStep
	case "next":
		return fast.DebugOp{Depth: env.CallDepth + 1}
	case "finish":
		return fast.DebugOp{Depth: env.CallDepth}
	}
	return fast.DebugOpContinue
}

func (d *directDebugger) Breakpoint(ir *fast.Interp, env *fast.Env) fast.DebugOp {
	return d.op(env, "break")
}
func (d *directDebugger) At(ir *fast.Interp, env *fast.Env) fast.DebugOp { return d.op(env, "at") }

// ---- the stop-rule model

type stopModel struct {
	mode    string // step next finish continue
	ref     int
	lastcmd string
}

func (m *stopModel) wantStop(depth int) bool {
	switch m.mode {
	case "step":
		return true
	case "next":
		return depth <= m.ref
	case "finish":
		return depth < m.ref
	}
	return false
}

// apply a command typed at a stop at depth d. returns true if execution resumes.
func (m *stopModel) apply(cmd string, d int) bool {
	if cmd == "<EOF>" {
		m.mode = "continue"
		return true
	}
	if cmd == "" {
		cmd = m.lastcmd
		if cmd == "" {
			return false
		}
	}
	word := strings.Fields(cmd)[0]
	full := ""
	for _, c := range []string{"backtrace", "continue", "env", "finish", "help", "inspect", "kill", "list", "next", "print", "step", "vars"} {
		if strings.HasPrefix(c, word) {
			full = c
			break
		}
	}
	if full == "" {
		return false // unknown command: stays stopped, does not become the last command
	}
	m.lastcmd = cmd
	switch full {
	case "step", "next", "finish", "continue":
		m.mode, m.ref = full, d
		return true
	}
	return false
}

// checkStops replays the unified event log (stops, commands, executed statements) on the
// stop-rule model. breakLines: source lines of breakpoint statements.
//
// Frames that are running in the executor's fast loop - every frame that was live when the
// user typed continue, and every frame entered while continue was in force - notice that
// single-stepping was switched on again (by a command given at a breakpoint deeper down)
// only when they next poll the signal word, which the unrolled loops do every 15 statements.
// A stop missed in such a frame within that lag is the known defect "polling lag"; it gets
// its own key so that any other missed stop is still reported.
func checkStops(ev []dbgEvent, breakLines map[int]bool) (key, detail string, stats map[string]int) {
	stats = map[string]int{}
	m := &stopModel{mode: "step"}
	var pendingAt *dbgEvent // an At stop whose statement has not executed yet
	stopped := false        // inside a stop: commands are being consumed
	stopDepth := 0
	var lastExec *dbgEvent
	breakDue := false // the statement just executed is a breakpoint: a break stop must follow
	fast := map[int]bool{}
	lag := map[int]int{}
	prevDepth := 0
	for i := range ev {
		e := &ev[i]
		switch e.Kind {
		case "at":
			if pendingAt != nil {
				return "double-stop", fmt.Sprintf("event %d: two stops without a statement executed in between (%v then %v)", i, *pendingAt, *e), stats
			}
			if breakDue {
				return "breakpoint-missed", fmt.Sprintf("event %d: the breakpoint statement at line %d executed without entering the debugger", i, lastExec.Line), stats
			}
			if !m.wantStop(e.Depth) {
				return "unexpected-stop:" + m.mode, fmt.Sprintf("event %d: %v although the last command was %s at depth %d", i, *e, m.mode, m.ref), stats
			}
			pendingAt, stopped, stopDepth = e, true, e.Depth
			fast[e.Depth], lag[e.Depth] = false, 0 // this frame is single-stepping
			stats["stops_at"]++
		case "break":
			if !breakDue {
				return "spurious-breakpoint", fmt.Sprintf("event %d: %v is not preceded by the execution of a breakpoint statement", i, *e), stats
			}
			if lastExec == nil || lastExec.Line != e.Line || lastExec.Depth != e.Depth {
				return "wrong-stop-position", fmt.Sprintf("event %d: %v does not match the breakpoint statement executed (%v)", i, *e, lastExec), stats
			}
			breakDue, stopped, stopDepth = false, true, e.Depth
			fast[e.Depth], lag[e.Depth] = false, 0
			stats["stops_breakpoint"]++
		case "cmd":
			if !stopped {
				return "command-while-running", fmt.Sprintf("event %d: the debugger consumed %v while the program was not stopped", i, *e), stats
			}
			if m.apply(e.Cmd, stopDepth) {
				stopped = false
				stats["cmd_"+m.mode]++
				if m.mode == "continue" {
					for d := 0; d <= stopDepth; d++ {
						fast[d], lag[d] = true, 0
					}
				}
			} else {
				stats["cmd_non_resuming"]++
			}
		case "exec", "end":
			if stopped {
				return "ran-while-stopped", fmt.Sprintf("event %d: %v executed although the last command did not resume execution", i, *e), stats
			}
			if breakDue {
				return "breakpoint-missed", fmt.Sprintf("event %d: the breakpoint statement at line %d executed without entering the debugger", i, lastExec.Line), stats
			}
			// frames entered / left
			for d := prevDepth + 1; d <= e.Depth; d++ {
				fast[d], lag[d] = m.mode == "continue", 0
			}
			for d := range fast {
				if d > e.Depth {
					delete(fast, d)
					delete(lag, d)
				}
			}
			prevDepth = e.Depth
			if pendingAt != nil {
				if pendingAt.Depth != e.Depth || (e.Kind == "exec" && pendingAt.Line != e.Line) || (e.Kind == "end" && pendingAt.Line > 0) {
					return "wrong-stop-position", fmt.Sprintf("event %d: stopped at %v but the next statement executed is %v", i, *pendingAt, *e), stats
				}
				pendingAt = nil
			} else if e.Kind == "exec" && e.Line > 0 && m.wantStop(e.Depth) {
				// the rule in force demanded a stop before this statement
				if fast[e.Depth] && lag[e.Depth] < 15 {
					lag[e.Depth]++
					stats["missed_stop_polling_lag"]++
					if key == "" {
						key = "missing-stop:frame-in-fast-loop-polling-lag"
						detail = fmt.Sprintf("event %d: %v executed without a stop although the last command was %s at depth %d; its frame was running in the executor's fast loop (it was live under continue) and had executed %d statements since single-stepping was switched on again", i, *e, m.mode, m.ref, lag[e.Depth]-1)
					}
				} else {
					return "missing-stop:" + m.mode, fmt.Sprintf("event %d: %v executed without a stop although the last command was %s at depth %d", i, *e, m.mode, m.ref), stats
				}
			}
			if e.Kind == "exec" {
				lastExec = e
				breakDue = breakLines[e.Line]
				stats["statements"]++
			}
		}
	}
	return key, detail, stats
}

func init() {
	register(&Prop{
		ID:    "C19",
		Level: "exploration",
		Rule: "one run = one seeded program (template c19a: nested calls, loops, recursion, deferred calls, single-goroutine select, `_ = \"break\"` breakpoints, optionally a function that recovers its own panic) debugged by a simulated user who answers every stop with a seeded command (step/next/finish/continue and their abbreviations, empty line = repeat, print, vars, backtrace, an unknown command, end of input), through (A) the real fast/debug.Debugger reading a simulated command stream and writing to a captured Stdout, or (B) a direct implementation of the fast.Debugger interface; the ground truth is the statement seam recording every executed statement (call depth, line) of the same run; " +
			"non-trivial = at least 3 stops and 2 different resuming commands; distinct = distinct (program, command sequence)",
		Runs: func(tier string) int {
			if tier == "thorough" {
				return 300000
			}
			return 5000
		},
		WallBudget: func(tier string) time.Duration {
			if tier == "thorough" {
				return 30 * time.Minute
			}
			return 70 * time.Second
		},
		Run:        runC19,
		FaultKinds: []string{"command_stream_eof_mid_session", "unknown_command", "empty_line_repeat", "non_resuming_command_at_stop"},
		ProbeNames: []string{"driver_real_debugger", "driver_direct", "stops_at", "stops_breakpoint", "cmd_step", "cmd_next", "cmd_finish", "cmd_continue", "statements", "programs_with_recover"},
		RealVsStub: []string{
			"real: executor single-step loop, Run.applyDebugOp, singleStep, breakpoint statements, fast/debug.Debugger (Show, Repl, Cmd, command table) in driver A",
			"stub: the user (command stream from the choice list), Stdout (captured and parsed for stop lines); driver B replaces the command parser by direct DebugOp values",
		},
		Assumptions: []string{
			"stop rule as documented: step = next executed statement at any depth; next = same or shallower depth; finish = shallower depth; continue = breakpoints only; statements without a source position are skipped",
			"after end of input on the command stream the debugger continues (documented behaviour of its Repl)",
		},
	})
}

var c19BreakLines map[int]bool

func c19Breaks() map[int]bool {
	if c19BreakLines == nil {
		c19BreakLines = map[int]bool{}
		for i, l := range strings.Split(c19a.Source, "\n") {
			if strings.Contains(l, `_ = "break"`) {
				c19BreakLines[i+1] = true
			}
		}
	}
	return c19BreakLines
}

func runC19(t *testing.T, ch *sim.Choices, tier string) (o Outcome) {
	gen := ch.Stream("gen")
	driver := gen.Draw(2)
	// undebugged reference + native twin
	nat := runSingleNative(ch.Fork(), "prog", c19a.Main, faultPlan{})
	ir0, out0, lerr := newInterp(c19a.Source)
	if lerr != "" {
		o.fail("interp-error", "c19a|load", lerr)
		return
	}
	nref := 0
	hs.Stmt = func(env *fast.Env, pos token.Pos) { nref++ }
	ref := runSingleInterp(ir0, out0, ch.Fork(), "prog", func() { ir0.Eval("Main()") }, faultPlan{})
	hs.Stmt = nil
	// debugged run
	ir, out, _ := newInterp("")
	g := &ir.Comp.Globals
	g.Options |= base.OptDebugger
	g.Options &^= base.OptShowPrompt
	log := &dbgLog{}
	user := &userSim{log: log, ch: ch.Stream("user")}
	if driver == 0 {
		o.probe("driver_real_debugger", 1)
		g.Stdout = &stopWriter{log: log}
		g.Readline = user
		ir.SetDebugger(&debug.Debugger{})
	} else {
		o.probe("driver_direct", 1)
		ir.SetDebugger(&directDebugger{log: log, ch: ch.Stream("user"), fset: func(p token.Pos) int {
			if p == token.NoPos {
				return 0
			}
			return g.Fileset.Position(p).Line
		}})
	}
	func() {
		defer func() {
			if r := recover(); r != nil {
				lerr = fmt.Sprint(r)
			}
		}()
		ir.Eval(c19a.Source)
	}()
	if lerr != "" {
		o.fail("interp-error", "c19a|load-debugger", lerr)
		return
	}
	budget := 60*nref + 2000
	nexec := 0
	exceeded := false
	hs.Stmt = func(env *fast.Env, pos token.Pos) {
		if log.inEval {
			return
		}
		nexec++
		if nexec > budget {
			exceeded = true
			panic(injectedPanic{"statement budget exceeded"})
		}
		line := 0
		if pos != token.NoPos {
			line = g.Fileset.Position(pos).Line
		}
		log.ev = append(log.ev, dbgEvent{Kind: "exec", Depth: env.CallDepth, Line: line})
	}
	nspin := 0
	hs.Spin = func(env *fast.Env) {
		if !log.inEval {
			log.ev = append(log.ev, dbgEvent{Kind: "end", Depth: env.CallDepth, Line: -1})
		}
		nspin++
		if nspin > budget {
			exceeded = true
			panic(injectedPanic{"statement budget exceeded (spinning)"})
		}
	}
	dbg := runSingleInterp(ir, out, ch.Fork(), "prog", func() { ir.DebugExpr(ir.Compile("Main()")) }, faultPlan{})
	hs.Stmt, hs.Spin = nil, nil
	o.Steps = nexec
	usesRecover := false
	for _, e := range nat.Log {
		if hasPrefix(e, "recover ") {
			usesRecover = true
			o.probe("programs_with_recover", 1)
		}
	}
	var evs []string
	for _, e := range log.ev {
		evs = append(evs, e.String())
		if e.Kind == "cmd" {
			switch e.Cmd {
			case "<EOF>":
				o.fault("command_stream_eof_mid_session", 1)
			case "bogus":
				o.fault("unknown_command", 1)
			case "":
				o.fault("empty_line_repeat", 1)
			case "vars", "backtrace", "print 40+2", "print leaf(7)":
				o.fault("non_resuming_command_at_stop", 1)
			}
		}
	}
	o.EventHash = hashStrings(hashStrings(0, evs), dbg.lines())
	o.Hash = hashStrings(hashStrings(uint64(driver), nat.lines()), cmdsOnly(log.ev))
	o.Sample = map[string]interface{}{"driver": []string{"real fast/debug.Debugger", "direct fast.Debugger"}[driver], "program_log": nat.lines(), "events": clipList(evs, 60)}
	desc := fmt.Sprintf("driver %s; program %v", []string{"real debugger", "direct"}[driver], nat.lines())
	if exceeded {
		key := "debugged-run-does-not-terminate"
		if usesRecover {
			key += ":program-recovers-a-panic"
		}
		o.fail("hang", normKey("c19a", key), fmt.Sprintf("%s\nthe debugged evaluation executed more than %d statements (%d without the debugger) and was aborted\nlast events: %v", desc, budget, nref, tailList(evs, 30)))
		return
	}
	// transparency
	a, b, c := dbg.lines(), ref.lines(), nat.lines()
	if i, x, y := firstDiff(a, b); i >= 0 {
		o.fail("not-transparent", normKey("c19a", stripDigits(x), stripDigits(y)), fmt.Sprintf("%s\nobservation #%d under the debugger is %q, without the debugger %q (compiled Go %q)\nevents: %v", desc, i, x, y, at(c, i), tailList(evs, 40)))
		return
	}
	if i, x, y := firstDiff(b, c); i >= 0 {
		o.fail("twin-mismatch", normKey("c19a", stripDigits(x), stripDigits(y)), fmt.Sprintf("%s\nundebugged observation #%d is %q, compiled Go gives %q", desc, i, x, y))
		return
	}
	// stop rule
	key, detail, stats := checkStops(log.ev, c19Breaks())
	for k, v := range stats {
		o.probe(k, v)
	}
	resuming := 0
	for _, k := range []string{"cmd_step", "cmd_next", "cmd_finish", "cmd_continue"} {
		if stats[k] > 0 {
			resuming++
		}
	}
	o.Nontrivial = stats["stops_at"]+stats["stops_breakpoint"] >= 3 && resuming >= 2
	if key != "" {
		o.fail("stop-rule", normKey("c19a", key), desc+"\n"+detail+"\nevents:\n"+joinLines(clipList(evs, 400)))
	}
	return
}

func cmdsOnly(ev []dbgEvent) []string {
	var l []string
	for _, e := range ev {
		if e.Kind == "cmd" {
			l = append(l, e.Cmd)
		}
	}
	return l
}

func tailList(l []string, n int) []string {
	if len(l) > n {
		return l[len(l)-n:]
	}
	return l
}

var _ = hook.Ev
