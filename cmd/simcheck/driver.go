// Package simcheck is the check driver: worker fan-out, merge, shrink, replay, evidence.
// It is built as a test binary (go test -c) because testing/synctest needs a *testing.T.
package simcheck

import (
	"bytes"
	"encoding/json"
	"fmt"
	"os"
	"os/exec"
	"path/filepath"
	"runtime"
	"sort"
	"strconv"
	"strings"
	"testing"
	"time"

	"verif/sim"
)

// Outcome of one simulated run.
type Outcome struct {
	Class      string // "" = property held on this run
	Key        string // stable identification of what fails (known-findings matching)
	Detail     string
	Hash       uint64 // distinctness hash (schedule / fault plan / outcome, see Prop.Rule)
	Nontrivial bool
	EventHash  uint64 // hash of everything observed: equal across replays of one seed
	// Unseeded digests the decisions the Go runtime took that no seed can force (its pick
	// among several ready select cases). A run is an exact function of (choice list,
	// Unseeded); replay re-rolls until the runtime repeats the recorded picks.
	Unseeded uint64
	Faults   map[string]int
	Probes   map[string]int
	SimNanos int64
	Steps    int
	Sample   interface{}
}

func (o *Outcome) fault(name string, n int) {
	if o.Faults == nil {
		o.Faults = map[string]int{}
	}
	o.Faults[name] += n
}

func (o *Outcome) probe(name string, n int) {
	if o.Probes == nil {
		o.Probes = map[string]int{}
	}
	o.Probes[name] += n
}

func (o *Outcome) fail(class, key, detail string) {
	if o.Class == "" {
		o.Class, o.Key, o.Detail = class, key, detail
	}
}

type Prop struct {
	ID          string
	Level       string // exploration | fault_enumeration
	Rule        string
	Race        bool // checks run in the -race binary
	Runs        func(tier string) int
	Enumerate   func(tier string) [][]uint32 // optional: forced "enum" stream per run
	Run         func(t *testing.T, ch *sim.Choices, tier string) Outcome
	FaultKinds  []string // every fault kind this check can inject (reported even when 0)
	ProbeNames  []string
	RealVsStub  []string
	Assumptions []string
	Explanation string
	WallBudget  func(tier string) time.Duration
}

var props = map[string]*Prop{}

func register(p *Prop) { props[p.ID] = p }

// ---------------------------------------------------------------- files

type rawViolation struct {
	Property string              `json:"property"`
	Tier     string              `json:"tier"`
	Run      int                 `json:"run"`
	Seed     uint64              `json:"seed"`
	Class    string              `json:"class"`
	Key      string              `json:"key"`
	Detail   string              `json:"detail"`
	Choices  map[string][]uint32 `json:"choices"`
	NChoices int                 `json:"n_choices"`
	// filled by shrink
	OrigNChoices int    `json:"orig_n_choices,omitempty"`
	EventHash    uint64 `json:"event_log_hash"`
	Unseeded     uint64 `json:"runtime_select_picks_digest"`
	Shrunk       bool   `json:"minimised"`
	// Explore: the run is re-generated from the seed instead of a recorded choice list
	// (crash and hang violations: the process died before the trace could be written)
	Explore bool     `json:"regenerate_from_seed,omitempty"`
	Enum    []uint32 `json:"enumeration_case,omitempty"`
}

type workerOut struct {
	Property   string         `json:"property"`
	From, To   int            `json:"-"`
	Runs       int            `json:"runs"`
	Hashes     []uint64       `json:"hashes"`
	EventHash  []uint64       `json:"event_hashes,omitempty"`
	Unseeded   []uint64       `json:"unseeded,omitempty"`
	Faults     map[string]int `json:"faults"`
	Probes     map[string]int `json:"probes"`
	SimNanos   int64          `json:"sim_nanos"`
	Steps      int64          `json:"steps"`
	Samples    []interface{}  `json:"samples"`
	Violations []rawViolation `json:"violations"`
	NViol      int            `json:"n_violations"`
	Fault      string         `json:"harness_fault,omitempty"`
	WallS      float64        `json:"wall_s"`
}

func runSeed(base uint64, prop string, i int) uint64 {
	return sim.Mix(base, sim.HashString(prop), uint64(i))
}

func verifRoot() string {
	if r := os.Getenv("VERIF_ROOT"); r != "" {
		return r
	}
	return "/verif"
}

// ---------------------------------------------------------------- one run, guarded

// runGuarded executes one run; a HarnessFault panic is returned as fault.
func runGuarded(t *testing.T, p *Prop, ch *sim.Choices, tier string) (o Outcome, fault string) {
	defer func() {
		if r := recover(); r != nil {
			if hf, ok := r.(sim.HarnessFault); ok {
				fault = hf.Msg
				return
			}
			buf := make([]byte, 1<<14)
			buf = buf[:runtime.Stack(buf, false)]
			fault = fmt.Sprintf("unexpected panic in harness: %v\n%s", r, buf)
		}
	}()
	o = p.Run(t, ch, tier)
	return
}

// ---------------------------------------------------------------- worker

func worker(t *testing.T, p *Prop, tier string, base uint64, from, to int, outPath string, deadline time.Time, wantEventHashes bool) {
	t0 := time.Now()
	out := workerOut{Property: p.ID, Faults: map[string]int{}, Probes: map[string]int{}}
	var enum [][]uint32
	if p.Enumerate != nil {
		enum = p.Enumerate(tier)
		if want := os.Getenv("SIM_ENUM_LEN"); want != "" && want != fmt.Sprint(len(enum)) {
			out := workerOut{Property: p.ID, Fault: fmt.Sprintf("enumeration is not deterministic: this worker computed %d cases, the parent %s", len(enum), want)}
			writeJSON(outPath, &out)
			return
		}
	}
	seen := map[uint64]bool{}
	race := newRaceWatch()
	known := loadKnown()
	for i := from; i < to; i++ {
		if time.Now().After(deadline) {
			break
		}
		seed := runSeed(base, p.ID, i)
		ch := sim.NewExplore(seed)
		if enum != nil {
			ch.Force("enum", enum[i])
		}
		// which run is in flight: lets the parent attribute a crash or a hang of this process
		os.WriteFile(outPath+".cur", []byte(fmt.Sprintf("%d %d", i, seed)), 0o644)
		o, fault := runGuarded(t, p, ch, tier)
		if fault != "" {
			out.Fault = fmt.Sprintf("run %d seed %d: %s", i, seed, fault)
			break
		}
		if txt := race.check(); txt != "" {
			// a data race explains (and takes priority over) any other misbehaviour of the run
			o.Class = ""
			k, rep := pickRace(txt, known)
			o.fail("race", k, clip(rep, 5000))
		}
		out.Runs++
		if o.Nontrivial && !seen[o.Hash] {
			seen[o.Hash] = true
			out.Hashes = append(out.Hashes, o.Hash)
		}
		if wantEventHashes {
			out.EventHash = append(out.EventHash, o.EventHash)
			out.Unseeded = append(out.Unseeded, o.Unseeded)
		}
		for k, v := range o.Faults {
			out.Faults[k] += v
		}
		for k, v := range o.Probes {
			out.Probes[k] += v
		}
		out.SimNanos += o.SimNanos
		out.Steps += int64(o.Steps)
		if o.Sample != nil && len(out.Samples) < 2 {
			out.Samples = append(out.Samples, o.Sample)
		}
		if o.Class != "" {
			out.NViol++
			dup := false
			for _, v := range out.Violations {
				if v.Class == o.Class && v.Key == o.Key {
					dup = true
				}
			}
			if !dup && len(out.Violations) < 8 {
				out.Violations = append(out.Violations, rawViolation{Property: p.ID, Tier: tier, Run: i, Seed: seed,
					Class: o.Class, Key: o.Key, Detail: o.Detail, Choices: ch.Trace(), NChoices: ch.TraceLen(), EventHash: o.EventHash, Unseeded: o.Unseeded})
			}
		}
	}
	out.WallS = time.Since(t0).Seconds()
	writeJSON(outPath, &out)
}

func writeJSON(path string, v interface{}) {
	b, err := json.MarshalIndent(v, "", " ")
	if err != nil {
		panic(err)
	}
	if err := os.WriteFile(path, b, 0o644); err != nil {
		panic(err)
	}
}

// ---------------------------------------------------------------- replay / shrink

func replayOnce(t *testing.T, p *Prop, v *rawViolation) (Outcome, string) {
	ch := sim.NewReplay(v.Seed, v.Choices)
	if v.Explore {
		ch = sim.NewExplore(v.Seed)
		if v.Enum != nil {
			ch.Force("enum", v.Enum)
		}
	}
	race := newRaceWatch()
	o, fault := runGuarded(t, p, ch, v.Tier)
	if txt := race.check(); txt != "" && fault == "" {
		o.Class = ""
		k, rep := pickRace(txt, loadKnown())
		o.fail("race", k, clip(rep, 5000))
	}
	return o, fault
}

// replayMatching re-executes v until the Go runtime repeats the recorded unseedable picks
// (at most attempts times); with no multi-ready select in the run the first attempt matches.
func replayMatching(t *testing.T, p *Prop, v *rawViolation, attempts int) (o Outcome, fault string, tries int) {
	for tries = 1; tries <= attempts; tries++ {
		o, fault = replayOnce(t, p, v)
		if fault != "" || o.Unseeded == v.Unseeded {
			return
		}
		if v.Class == "race" && o.Class == "race" {
			// ThreadSanitizer reports a racing pair once per process: take it when it comes
			return
		}
	}
	return o, fault, attempts
}

// shrink minimises the choice lists by delta debugging while the same violation class
// (and key) persists. Bounded by budget.
func shrink(t *testing.T, p *Prop, v *rawViolation, budget time.Duration) {
	deadline := time.Now().Add(budget)
	orig := v.NChoices
	if v.Class == "race" {
		// ThreadSanitizer reports each racing stack pair once per process, so candidates cannot
		// be re-tested in-process: race replays are kept unminimised (fresh-process replay only)
		return
	}
	var lastGood Outcome
	same := func(c map[string][]uint32) bool {
		vv := *v
		vv.Choices = c
		// the runtime's select picks cannot be forced: a candidate counts as failing if any
		// of a few attempts fails the same way
		for try := 0; try < 6; try++ {
			o, fault := replayOnce(t, p, &vv)
			if fault == "" && o.Class == v.Class && o.Key == v.Key {
				lastGood = o
				return true
			}
			if fault != "" || o.Unseeded == 0 {
				break
			}
		}
		return false
	}
	if !same(v.Choices) {
		// not reproducible in-process: keep as is, replay verification will reject it
		return
	}
	names := make([]string, 0, len(v.Choices))
	for k := range v.Choices {
		names = append(names, k)
	}
	sort.Strings(names)
	cur := v.Choices
	clone := func() map[string][]uint32 {
		m := map[string][]uint32{}
		for k, l := range cur {
			m[k] = append([]uint32(nil), l...)
		}
		return m
	}
	progress := true
	for progress && time.Now().Before(deadline) {
		progress = false
		for _, name := range names {
			// 1. truncate tails / drop blocks
			for blk := len(cur[name]); blk >= 1 && time.Now().Before(deadline); blk /= 2 {
				for start := 0; start+blk <= len(cur[name]) && time.Now().Before(deadline); {
					c := clone()
					l := c[name]
					c[name] = append(append([]uint32(nil), l[:start]...), l[start+blk:]...)
					if same(c) {
						cur = c
						progress = true
					} else {
						start += blk
					}
				}
			}
			// 2. zero / lower single entries
			for i := 0; i < len(cur[name]) && time.Now().Before(deadline); i++ {
				if cur[name][i] == 0 {
					continue
				}
				for _, nv := range []uint32{0, cur[name][i] / 2, cur[name][i] - 1} {
					if nv >= cur[name][i] {
						continue
					}
					c := clone()
					c[name][i] = nv
					if same(c) {
						cur = c
						progress = true
						break
					}
				}
			}
		}
	}
	// strip trailing zeros (past-the-end draws are 0 anyway)
	for _, name := range names {
		l := cur[name]
		for len(l) > 0 && l[len(l)-1] == 0 {
			l = l[:len(l)-1]
		}
		if len(l) == 0 {
			delete(cur, name)
		} else {
			cur[name] = l
		}
	}
	if same(cur) {
		v.Choices = cur
	}
	n := 0
	for _, l := range v.Choices {
		n += len(l)
	}
	v.Detail = lastGood.Detail
	v.EventHash = lastGood.EventHash
	v.Unseeded = lastGood.Unseeded
	v.OrigNChoices = orig
	v.NChoices = n
	v.Shrunk = true
}

// ---------------------------------------------------------------- race log watching

type raceWatch struct {
	path string
	off  int64
}

func newRaceWatch() *raceWatch {
	if !sim.RaceEnabled {
		return nil
	}
	base := os.Getenv("SIM_RACE_LOG")
	if base == "" {
		return nil
	}
	w := &raceWatch{path: fmt.Sprintf("%s.%d", base, os.Getpid())}
	if st, err := os.Stat(w.path); err == nil {
		w.off = st.Size()
	}
	return w
}

func (w *raceWatch) check() string {
	if w == nil {
		return ""
	}
	st, err := os.Stat(w.path)
	if err != nil || st.Size() <= w.off {
		return ""
	}
	b, err := os.ReadFile(w.path)
	if err != nil {
		return ""
	}
	txt := string(b[w.off:])
	w.off = st.Size()
	if len(txt) > 1<<20 {
		txt = txt[:1<<20]
	}
	return txt
}

// splitRaceReports cuts a race log excerpt into individual reports.
func splitRaceReports(txt string) []string {
	var out []string
	for _, part := range strings.Split(txt, "==================") {
		if strings.Contains(part, "DATA RACE") {
			out = append(out, strings.TrimSpace(part))
		}
	}
	return out
}

var srcCache = map[string][]string{}

func srcLine(file string, line int) string {
	l, ok := srcCache[file]
	if !ok {
		b, _ := os.ReadFile(file)
		l = strings.Split(string(b), "\n")
		srcCache[file] = l
	}
	if line >= 1 && line <= len(l) {
		return l[line-1]
	}
	return ""
}

// raceKey identifies a report by the first non-runtime frame of each of the two access
// stacks. Reports whose two accesses are both statements of the per-call-site function
// value cache (variables cachedfunv/cachedfun in fast/call*ret*.go) get one common key.
func raceKey(txt string) string {
	var fns []string
	cache := 0
	lines := strings.Split(txt, "\n")
	for i, l := range lines {
		l = strings.TrimSpace(l)
		if strings.HasPrefix(l, "Write at") || strings.HasPrefix(l, "Read at") || strings.HasPrefix(l, "Previous write at") || strings.HasPrefix(l, "Previous read at") ||
			strings.HasPrefix(l, "Atomic") || strings.HasPrefix(l, "Previous atomic") {
			for j := i + 1; j+1 < len(lines) && strings.TrimSpace(lines[j]) != ""; j += 2 {
				fn := strings.TrimSpace(lines[j])
				if strings.HasPrefix(fn, "runtime.") || strings.HasPrefix(fn, "reflect.") || strings.HasPrefix(fn, "sync") {
					continue
				}
				fn = strings.TrimSuffix(fn, "()")
				fns = append(fns, fn)
				// "      /repo/fast/call1ret1.go:1272 +0xdc"
				loc := strings.Fields(strings.TrimSpace(lines[j+1]))
				if len(loc) > 0 {
					if k := strings.LastIndex(loc[0], ":"); k > 0 {
						ln, _ := strconv.Atoi(loc[0][k+1:])
						if strings.Contains(srcLine(loc[0][:k], ln), "cachedfun") {
							cache++
						}
					}
				}
				break
			}
		}
		if len(fns) == 2 {
			break
		}
	}
	if len(fns) == 2 && cache == 2 {
		return "race:callsite-funcache"
	}
	return "race:" + strings.Join(fns, "<->")
}

// pickRace chooses which report of txt describes the run: an unlisted one if there is any.
func pickRace(txt string, known []knownFinding) (key, report string) {
	reps := splitRaceReports(txt)
	if len(reps) == 0 {
		return raceKey(txt), txt
	}
	for _, r := range reps {
		k := raceKey(r)
		listed := false
		for _, kf := range known {
			if kf.Status == "known" && kf.Class == "race" && kf.Key == k {
				listed = true
			}
		}
		if !listed {
			return k, r
		}
	}
	return raceKey(reps[0]), reps[0]
}

// ---------------------------------------------------------------- parent: run

type knownFinding struct {
	Property string   `json:"property"`
	AlsoIn   []string `json:"also_seen_in,omitempty"`
	Status   string   `json:"status"` // "known" | "fixed"
	Class    string   `json:"class"`
	Key      string   `json:"key"`
	What     string   `json:"what"`
	Commit   string   `json:"commit,omitempty"`
}

func loadKnown() []knownFinding {
	var k struct {
		Findings []knownFinding `json:"findings"`
	}
	b, err := os.ReadFile(filepath.Join(verifRoot(), "known_findings.json"))
	if err != nil {
		return nil
	}
	if err := json.Unmarshal(b, &k); err != nil {
		fmt.Fprintf(os.Stderr, "known_findings.json: %v\n", err)
		os.Exit(2)
	}
	return k.Findings
}

func selfExe() string {
	exe, err := os.Executable()
	if err != nil {
		panic(err)
	}
	return exe
}

func childCmd(args ...string) *exec.Cmd {
	all := append([]string{"-test.run=^TestSim$", "-test.timeout=0"}, args...)
	cmd := exec.Command(selfExe(), all...)
	cmd.Env = os.Environ()
	return cmd
}

// parentRun fans out workers, merges, shrinks, verifies replays, writes evidence.
// Returns the process exit code.
func parentRun(p *Prop, tier string, base uint64, nworkers int) int {
	t0 := time.Now()
	total := p.Runs(tier)
	if p.Enumerate != nil {
		total = len(p.Enumerate(tier))
	}
	budget := 10 * time.Minute
	if p.WallBudget != nil {
		budget = p.WallBudget(tier)
	}
	deadline := t0.Add(budget)
	tmp, err := os.MkdirTemp("", "simcheck-"+p.ID+"-")
	if err != nil {
		fmt.Fprintln(os.Stderr, err)
		return 2
	}
	defer os.RemoveAll(tmp)
	if nworkers < 1 {
		nworkers = 1
	}
	// job queue: chunks of at most chunkMax runs, nworkers processes at a time. Short-lived
	// workers bound the memory held by leaked (deadlocked) simulated programs.
	type job struct {
		from, to int
		cmd      *exec.Cmd
		out      string
		buf      *bytes.Buffer
		hung     bool
	}
	hangLimit := 100 * time.Second
	if tier == "thorough" {
		hangLimit = 5 * time.Minute
	}
	var died []rawViolation // runs during which a worker process crashed or hung
	chunkMax := 250
	chunk := (total + nworkers - 1) / nworkers
	if chunk > chunkMax {
		chunk = chunkMax
	}
	var queue []*job
	for from := 0; from < total; from += chunk {
		to := from + chunk
		if to > total {
			to = total
		}
		queue = append(queue, &job{from: from, to: to})
	}
	merged := workerOut{Property: p.ID, Faults: map[string]int{}, Probes: map[string]int{}}
	hashes := map[uint64]bool{}
	nprocs := 0
	type doneMsg struct {
		j   *job
		err error
	}
	doneCh := make(chan doneMsg, len(queue))
	running := 0
	next := 0
	var faultMsg string
	start := func(j *job) bool {
		j.out = filepath.Join(tmp, fmt.Sprintf("w%d.json", j.from))
		racelog := filepath.Join(tmp, fmt.Sprintf("race%d", j.from))
		cmd := childCmd("-sim.cmd=worker", "-sim.prop="+p.ID, "-sim.tier="+tier, fmt.Sprintf("-sim.seed=%d", base),
			fmt.Sprintf("-sim.from=%d", j.from), fmt.Sprintf("-sim.to=%d", j.to), "-sim.out="+j.out,
			fmt.Sprintf("-sim.deadline=%d", deadline.Unix()))
		cmd.Env = append(cmd.Env, "SIM_RACE_LOG="+racelog, "GORACE=halt_on_error=0 exitcode=0 log_path="+racelog)
		if p.Enumerate != nil {
			cmd.Env = append(cmd.Env, fmt.Sprintf("SIM_ENUM_LEN=%d", total))
		}
		j.buf = &bytes.Buffer{}
		cmd.Stdout, cmd.Stderr = j.buf, j.buf
		if err := cmd.Start(); err != nil {
			faultMsg = "cannot start worker: " + err.Error()
			return false
		}
		j.cmd = cmd
		nprocs++
		// watchdogs: the wall budget plus a grace period; and no single run may take longer
		// than hangLimit (the marker file is rewritten before every run)
		timer := time.AfterFunc(time.Until(deadline)+5*time.Minute, func() { cmd.Process.Kill() })
		stop := make(chan struct{})
		go func() {
			for {
				select {
				case <-stop:
					return
				case <-time.After(2 * time.Second):
				}
				if st, err := os.Stat(j.out + ".cur"); err == nil && time.Since(st.ModTime()) > hangLimit {
					j.hung = true
					cmd.Process.Kill()
					return
				}
			}
		}()
		go func() {
			err := cmd.Wait()
			timer.Stop()
			close(stop)
			doneCh <- doneMsg{j, err}
		}()
		return true
	}
	for (next < len(queue) || running > 0) && faultMsg == "" {
		for running < nworkers && next < len(queue) && time.Now().Before(deadline) {
			if !start(queue[next]) {
				break
			}
			next++
			running++
		}
		if running == 0 {
			break
		}
		d := <-doneCh
		running--
		var wo workerOut
		b, rerr := os.ReadFile(d.j.out)
		if rerr != nil || json.Unmarshal(b, &wo) != nil {
			// the worker process died: which run was in flight?
			var ri int
			var rs uint64
			cur, _ := os.ReadFile(d.j.out + ".cur")
			if n, _ := fmt.Sscanf(string(cur), "%d %d", &ri, &rs); n != 2 {
				faultMsg = fmt.Sprintf("worker [%d,%d) produced no result (%v)\n%s", d.j.from, d.j.to, d.err, tail(d.j.buf.String(), 4000))
				break
			}
			class, detail := "crash", crashHeadline(d.j.buf.String())
			if d.j.hung {
				class, detail = "hang", fmt.Sprintf("the run did not finish within %v", hangLimit)
			}
			v := rawViolation{Property: p.ID, Tier: tier, Run: ri, Seed: rs, Class: class, Key: class + ":" + crashKey(detail), Detail: detail + "\n" + tail(d.j.buf.String(), 3000), Explore: true}
			if p.Enumerate != nil {
				v.Enum = p.Enumerate(tier)[ri]
			}
			died = append(died, v)
			continue
		}
		if wo.Fault != "" {
			faultMsg = wo.Fault
			break
		}
		merged.Runs += wo.Runs
		for _, h := range wo.Hashes {
			hashes[h] = true
		}
		for k, v := range wo.Faults {
			merged.Faults[k] += v
		}
		for k, v := range wo.Probes {
			merged.Probes[k] += v
		}
		merged.SimNanos += wo.SimNanos
		merged.Steps += wo.Steps
		merged.NViol += wo.NViol
		if len(merged.Samples) < 3 {
			merged.Samples = append(merged.Samples, wo.Samples...)
		}
		merged.Violations = append(merged.Violations, wo.Violations...)
	}
	if faultMsg != "" {
		for _, j := range queue {
			if j.cmd != nil && j.cmd.Process != nil {
				j.cmd.Process.Kill()
			}
		}
		fmt.Fprintf(os.Stderr, "HARNESS-FAULT: %s\n", faultMsg)
		return 2
	}
	// a run that killed its worker process is a violation only if it does so again, alone,
	// in a fresh process; otherwise it is harness trouble
	os.MkdirAll(filepath.Join(verifRoot(), "replays"), 0o755)
	var diedConfirmed []rawViolation
	for i, v := range died {
		if i >= 3 {
			break
		}
		replay := filepath.Join(verifRoot(), "replays", fmt.Sprintf("%s-%d.json", p.ID, v.Seed))
		writeJSON(replay, &v)
		if code, outb := runReplayChild(replay, tmp, hangLimit); code == 1 && strings.Contains(outb, "REPRODUCED") {
			diedConfirmed = append(diedConfirmed, v)
		} else {
			fmt.Fprintf(os.Stderr, "HARNESS-FAULT: a worker process died (%s) during run %d seed %d but the run alone does not reproduce it (exit %d)\n%s\n", v.Class, v.Run, v.Seed, code, tail(v.Detail, 2500))
			return 2
		}
	}
	// distinct violations by (class,key)
	known := loadKnown()
	type vres struct {
		v      rawViolation
		replay string
		known  *knownFinding
	}
	var results []vres
	seenV := map[string]bool{}
	sort.SliceStable(merged.Violations, func(i, j int) bool {
		a, b := merged.Violations[i], merged.Violations[j]
		if (a.Class == "race") != (b.Class == "race") {
			return a.Class == "race"
		}
		return a.Run < b.Run
	})
	var unreproduced []string
	exit := 0
	os.MkdirAll(filepath.Join(verifRoot(), "replays"), 0o755)
	for _, v := range merged.Violations {
		id := v.Class + "|" + v.Key
		if seenV[id] || len(results) >= 6 {
			continue
		}
		seenV[id] = true
		raw := filepath.Join(tmp, fmt.Sprintf("raw-%d.json", v.Run))
		writeJSON(raw, &v)
		replay := filepath.Join(verifRoot(), "replays", fmt.Sprintf("%s-%d.json", p.ID, v.Seed))
		cmd := childCmd("-sim.cmd=shrink", "-sim.file="+raw, "-sim.out="+replay)
		cmd.Env = append(cmd.Env, "SIM_RACE_LOG="+filepath.Join(tmp, "race-shrink"),
			"GORACE=halt_on_error=0 exitcode=0 log_path="+filepath.Join(tmp, "race-shrink"))
		if outb, err := cmd.CombinedOutput(); err != nil {
			fmt.Fprintf(os.Stderr, "HARNESS-FAULT: shrink failed: %v\n%s\n", err, tail(string(outb), 3000))
			return 2
		}
		// replay in a fresh process: must reproduce class, key and event-log hash
		reproduced := false
		var lastOut string
		for attempt := 0; attempt < 3 && !reproduced; attempt++ {
			cmd = childCmd("-sim.cmd=replay", "-sim.file="+replay)
			cmd.Env = append(cmd.Env, "SIM_RACE_LOG="+filepath.Join(tmp, "race-replay"),
				"GORACE=halt_on_error=0 exitcode=0 log_path="+filepath.Join(tmp, "race-replay"))
			outb, err := cmd.CombinedOutput()
			code := 0
			if ee, ok := err.(*exec.ExitError); ok {
				code = ee.ExitCode()
			}
			lastOut = fmt.Sprintf("exit %d\n%s", code, tail(string(outb), 3000))
			reproduced = code == 1 && strings.Contains(string(outb), "REPRODUCED") && !strings.Contains(string(outb), "NOT-REPRODUCED")
		}
		if !reproduced {
			unreproduced = append(unreproduced, fmt.Sprintf("%s class=%s key=%s: %s", replay, v.Class, v.Key, lastOut))
			continue
		}
		var sv rawViolation
		b, _ := os.ReadFile(replay)
		json.Unmarshal(b, &sv)
		r := vres{v: sv, replay: replay}
		for i := range known {
			k := &known[i]
			applies := k.Property == p.ID
			for _, a := range k.AlsoIn {
				if a == p.ID {
					applies = true
				}
			}
			if applies && k.Status == "known" && k.Class == sv.Class && k.Key == sv.Key {
				r.known = k
			}
		}
		results = append(results, r)
	}
	for _, v := range diedConfirmed {
		results = append(results, vres{v: v, replay: filepath.Join(verifRoot(), "replays", fmt.Sprintf("%s-%d.json", p.ID, v.Seed))})
		for i := range known {
			k := &known[i]
			if k.Property == p.ID && k.Status == "known" && k.Class == v.Class && k.Key == v.Key {
				results[len(results)-1].known = k
			}
		}
	}
	unknown := 0
	for _, r := range results {
		if r.known != nil {
			fmt.Printf("KNOWN-FINDING: property=%s %s\n", r.known.Property, r.known.What)
		} else {
			unknown++
			fmt.Printf("VIOLATION property=%s replay=%s\n", p.ID, r.replay)
			fmt.Printf("  class=%s key=%s seed=%d choices=%d (from %d)\n  %s\n", r.v.Class, r.v.Key, r.v.Seed, r.v.NChoices, r.v.OrigNChoices, firstLines(r.v.Detail, 12))
			exit = 1
		}
	}
	if exit == 0 && len(unreproduced) > 0 {
		// a violation that does not replay is never reported as a violation
		for _, u := range unreproduced {
			fmt.Fprintf(os.Stderr, "HARNESS-FAULT: violation did not replay in a fresh process: %s\n", u)
		}
		return 2
	}
	wall := time.Since(t0).Seconds()
	// evidence
	faults := map[string]int{}
	for _, k := range p.FaultKinds {
		faults[k] = 0
	}
	for k, v := range merged.Faults {
		faults[k] = v
	}
	probes := map[string]int{}
	for _, k := range p.ProbeNames {
		probes[k] = 0
	}
	for k, v := range merged.Probes {
		probes[k] = v
	}
	var gaps []string
	for k, v := range probes {
		if v == 0 {
			gaps = append(gaps, k)
		}
	}
	for k, v := range faults {
		if v == 0 {
			gaps = append(gaps, "fault:"+k)
		}
	}
	sort.Strings(gaps)
	var vlist []map[string]interface{}
	for _, r := range results {
		vlist = append(vlist, map[string]interface{}{"class": r.v.Class, "key": r.v.Key, "seed": r.v.Seed, "replay": r.replay,
			"known_finding": r.known != nil, "choices": r.v.NChoices, "choices_before_minimisation": r.v.OrigNChoices})
	}
	samples := merged.Samples
	if len(samples) == 0 {
		samples = []interface{}{"(no sample recorded)"}
	}
	ev := map[string]interface{}{
		"property_id": p.ID,
		"tier":        tier,
		"seed":        int64(base & 0x7fffffffffffffff),
		"level":       p.Level,
		"wall_s":      wall,
		"violations":  unknown,
		"assumptions": p.Assumptions,
		"coverage": map[string]interface{}{
			"evaluations":                       merged.Runs,
			"planned_evaluations":               total,
			"distinct_nontrivial":               len(hashes),
			"rule":                              p.Rule,
			"samples":                           samples,
			"exhaustive":                        p.Enumerate != nil && merged.Runs == total,
			"runs_per_hour":                     float64(merged.Runs) / wall * 3600,
			"seeds":                             map[string]interface{}{"base": base, "first_run_seed": runSeed(base, p.ID, 0), "last_run_seed": runSeed(base, p.ID, total-1), "derivation": "mix(VERIF_SEED, hash(property), run_index)"},
			"simulated_time_s":                  float64(merged.SimNanos) / 1e9,
			"scheduler_decisions_or_statements": merged.Steps,
			"faults_fired":                      faults,
			"probes":                            probes,
			"gaps_probes_at_zero":               gaps,
			"real_vs_stub":                      p.RealVsStub,
			"violations_found":                  vlist,
			"violating_runs":                    merged.NViol,
			"workers":                           nprocs,
			"race_detector":                     sim.RaceEnabled,
			"explanation":                       p.Explanation,
		},
	}
	os.MkdirAll(filepath.Join(verifRoot(), "evidence"), 0o755)
	writeJSON(filepath.Join(verifRoot(), "evidence", p.ID+".json"), ev)
	fmt.Printf("%s %s: runs=%d/%d distinct=%d violations=%d known=%d wall=%.1fs faults=%v\n", p.ID, tier, merged.Runs, total, len(hashes), unknown, len(results)-unknown, wall, faults)
	if merged.Runs == 0 {
		fmt.Fprintln(os.Stderr, "HARNESS-FAULT: no run executed")
		return 2
	}
	return exit
}

func tail(s string, n int) string {
	if len(s) > n {
		return s[len(s)-n:]
	}
	return s
}

func firstLines(s string, n int) string {
	l := strings.Split(s, "\n")
	if len(l) > n {
		l = l[:n]
	}
	return strings.Join(l, "\n  ")
}

func clip(s string, n int) string {
	if len(s) > n {
		return s[:n] + "\n...[truncated]"
	}
	return s
}

// parentDeterminism runs the first n runs of p in several fresh processes at different
// GOMAXPROCS values and checks that the event-log hash of every run is a function of the
// seed (and of the Go runtime's unseedable select picks, where a run had multi-ready selects).
func parentDeterminism(p *Prop, tier string, base uint64, n int) int {
	total := p.Runs(tier)
	if p.Enumerate != nil {
		total = len(p.Enumerate(tier))
	}
	if n > total {
		n = total
	}
	tmp, err := os.MkdirTemp("", "simcheck-det-")
	if err != nil {
		return 2
	}
	defer os.RemoveAll(tmp)
	procs := []int{1, 4, 16, 1, 16, 4}
	type key struct {
		run      int
		unseeded uint64
	}
	seen := map[key]uint64{}
	differ, compared, multi := 0, 0, 0
	for pi, gmp := range procs {
		out := filepath.Join(tmp, fmt.Sprintf("d%d.json", pi))
		cmd := childCmd("-sim.cmd=worker", "-sim.prop="+p.ID, "-sim.tier="+tier, fmt.Sprintf("-sim.seed=%d", base),
			"-sim.from=0", fmt.Sprintf("-sim.to=%d", n), "-sim.out="+out, "-sim.eventhashes")
		cmd.Env = append(cmd.Env, fmt.Sprintf("GOMAXPROCS=%d", gmp), "SIM_RACE_LOG="+filepath.Join(tmp, "race"), "GORACE=halt_on_error=0 exitcode=0 log_path="+filepath.Join(tmp, "race"))
		if p.Enumerate != nil {
			cmd.Env = append(cmd.Env, fmt.Sprintf("SIM_ENUM_LEN=%d", total))
		}
		if b, err := cmd.CombinedOutput(); err != nil {
			fmt.Fprintf(os.Stderr, "HARNESS-FAULT: determinism worker failed: %v\n%s\n", err, tail(string(b), 2000))
			return 2
		}
		var wo workerOut
		b, _ := os.ReadFile(out)
		if json.Unmarshal(b, &wo) != nil || wo.Fault != "" {
			fmt.Fprintf(os.Stderr, "HARNESS-FAULT: determinism worker: %s\n", wo.Fault)
			return 2
		}
		for i, h := range wo.EventHash {
			k := key{i, wo.Unseeded[i]}
			if prev, ok := seen[k]; ok {
				compared++
				if prev != h {
					differ++
					fmt.Printf("NONDETERMINISTIC: %s run %d (seed %d): event-log hash %d vs %d at GOMAXPROCS=%d\n", p.ID, i, runSeed(base, p.ID, i), prev, h, gmp)
				}
			} else {
				if pi > 0 {
					multi++ // same seed, different runtime select picks: a legitimately different run
				}
				seen[k] = h
			}
		}
	}
	fmt.Printf("determinism %s: %d runs x %d processes (GOMAXPROCS %v): %d comparisons, %d differing, %d runs re-rolled by runtime select picks\n", p.ID, n, len(procs), procs, compared, differ, multi)
	if differ > 0 {
		return 1
	}
	return 0
}

// crashHeadline extracts the first line of a Go crash ("fatal error: ..." / "panic: ...").
func crashHeadline(out string) string {
	for _, l := range strings.Split(out, "\n") {
		if strings.HasPrefix(l, "fatal error:") || strings.HasPrefix(l, "panic:") || strings.HasPrefix(l, "SIGSEGV") || strings.HasPrefix(l, "unexpected fault address") {
			return l
		}
	}
	return "the worker process died without a Go crash message"
}

func crashKey(s string) string {
	if i := strings.Index(s, "[recovered"); i > 0 {
		s = s[:i]
	}
	if len(s) > 80 {
		s = s[:80]
	}
	return stripDigits(strings.TrimSpace(s))
}

// runReplayChild replays a file in a fresh process with a time limit.
// It returns the exit code (-1 = killed after the time limit) and the combined output.
func runReplayChild(replay, tmp string, limit time.Duration) (int, string) {
	cmd := childCmd("-sim.cmd=replay", "-sim.file="+replay)
	cmd.Env = append(cmd.Env, "SIM_RACE_LOG="+filepath.Join(tmp, "race-replay"),
		"GORACE=halt_on_error=0 exitcode=0 log_path="+filepath.Join(tmp, "race-replay"))
	var buf bytes.Buffer
	cmd.Stdout, cmd.Stderr = &buf, &buf
	if err := cmd.Start(); err != nil {
		return 2, err.Error()
	}
	timer := time.AfterFunc(limit+30*time.Second, func() { cmd.Process.Kill() })
	err := cmd.Wait()
	timer.Stop()
	code := 0
	if ee, ok := err.(*exec.ExitError); ok {
		code = ee.ExitCode()
	}
	return code, buf.String()
}

// sameRace: two race keys describe the same defect if they share an access site.
func sameRace(a, b string) bool {
	if a == b {
		return true
	}
	fa := strings.Split(strings.TrimPrefix(a, "race:"), "<->")
	fb := strings.Split(strings.TrimPrefix(b, "race:"), "<->")
	for _, x := range fa {
		for _, y := range fb {
			if x != "" && x == y {
				return true
			}
		}
	}
	return false
}
