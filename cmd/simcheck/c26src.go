package simcheck

import (
	"bytes"

	"verif/sim"
)

// Source streams assembled from statement templates whose structure is known by
// construction: every template is a list of segments (code / string / raw string / rune /
// comment), so for every byte offset we know whether it lies inside a token that must not be
// cut, how many brackets are open, and which offsets are statement boundaries.

type seg struct {
	kind byte // c code, s string, w raw string, r rune, k comment
	text string
}

type piece struct {
	name string
	segs []seg
}

func c(t string) seg { return seg{'c', t} }
func s(t string) seg { return seg{'s', t} }
func w(t string) seg { return seg{'w', t} }
func r(t string) seg { return seg{'r', t} }
func k(t string) seg { return seg{'k', t} }

var c26Pieces = []piece{
	{"assign", []seg{c("x := 1\n")}},
	{"binop-eol-plus", []seg{c("x = x +\n\t2\n")}},
	{"binop-eol-minus", []seg{c("x = x -\n\t2\n")}},
	{"binop-eol-star", []seg{c("x = x *\n\t3\n")}},
	{"binop-eol-andnot", []seg{c("x = x &^\n\t1\n")}},
	{"binop-eol-lt", []seg{c("b := x <\n\t2\n")}},
	{"binop-eol-or", []seg{c("x = x |\n\t4\n")}},
	{"binop-eol-rem", []seg{c("x = x %\n\t5\n")}},
	{"binop-eol-eq", []seg{c("b = x ==\n\t5\n")}},
	{"binop-eol-not", []seg{c("b = !\n\tb\n")}},
	{"assign-eol", []seg{c("x =\n\t7\n")}},
	{"comma-eol-toplevel", []seg{c("x, y = 1,\n\t2\n")}},
	{"comma-eol-var", []seg{c("var p,\n\tq int\n")}},
	{"binop-eol-and", []seg{c("x = x &\n\t6\n")}},
	{"binop-eol-xor", []seg{c("x = x ^\n\t6\n")}},
	{"binop-eol-gt", []seg{c("b = x >\n\t6\n")}},
	{"binop-eol-slash", []seg{c("x = x /\n\t2\n")}},
	{"slash-then-paren", []seg{c("x = x/(\n\t2)\n")}},
	{"slash-then-bracket", []seg{c("x = x/a[\n\t0]\n")}},
	{"slash-then-rune", []seg{c("x = x /"), r("'a'"), c("\n")}},
	{"slash-then-rune-brace", []seg{c("x = x /"), r("'{'"), c("\n")}},
	{"quoeq-eol", []seg{c("x /=\n\t2\n")}},
	{"selector-dot-eol", []seg{c("x = st.\n\tf.\n\tg\n")}},
	{"method-chain-dot-eol", []seg{c("v := b.\n\tWithA().\n\tWithB(1)\n")}},
	{"float-dot-eol", []seg{c("fl := 1.\n")}},
	{"keyword-eol-after-bracket-struct", []seg{c("var ks []struct\n{\n\ta int\n}\n")}},
	{"keyword-eol-after-bracket-func", []seg{c("var kf []func\n(int) int\n")}},
	{"keyword-eol-after-bracket-interface", []seg{c("var ki map[string]interface\n{}\n")}},
	{"keyword-eol-after-semicolon", []seg{c("x = 1;var\nkv = 2\n")}},
	{"keyword-eol-after-brace", []seg{c("type kt struct{};type\nku int\n")}},
	{"selector-dot-digit-ident", []seg{c("v2 := b2.\n\tWithA().\n\tv1\n")}},
	{"hex-float-dot-eol", []seg{c("fl = 0x1f + 12e3 + 1.\n")}},
	{"comment-stars", []seg{k("/** doc { ( **/"), c("\n")}},
	{"comment-stars-multi", []seg{k("/***\n * text [\n ***/"), c("\n")}},
	{"comment-only-stars", []seg{k("/***/"), c("\n")}},
	{"string-with-tab", []seg{c("s = "), s("\"a\tb { (\""), c("\n")}},
	{"rune-tab", []seg{c("c := "), r("'\t'"), c("\n")}},
	{"binop-eol-shl", []seg{c("x = x <<\n\t2\n")}},
	{"binop-eol-andand", []seg{c("b = b &&\n\tb\n")}},
	{"binop-eol-oror", []seg{c("b = b ||\n\tb\n")}},
	{"binop-eol-ne", []seg{c("b = x !=\n\t6\n")}},
	{"binop-eol-pluseq", []seg{c("x +=\n\t6\n")}},
	{"define-eol", []seg{c("d :=\n\t6\n")}},
	{"send-eol", []seg{c("ch <-\n\t6\n")}},
	{"call-comma", []seg{c("f(1,\n\t2)\n")}},
	{"call-bracket", []seg{c("f(\n\t1, 2,\n)\n")}},
	{"slice-lit", []seg{c("var a = []int{\n\t1,\n\t2,\n}\n")}},
	{"index-bracket", []seg{c("x = a[\n\t0]\n")}},
	{"string-tricky", []seg{c("s := "), s(`"str // not comment { [ ( /* x"`), c("\n")}},
	{"string-escapes", []seg{c("s = "), s(`"esc \" quote \\"`), c(" + "), s(`"'"`), c("\n")}},
	{"string-backquote", []seg{c("s = "), s("\"tick ` inside\""), c("\n")}},
	{"raw-multiline", []seg{c("rs := "), w("`raw\nline2 } ) \" ' // /*\n\tlast`"), c("\n")}},
	{"raw-then-op", []seg{c("rs = "), w("`a\nb`"), c(" +\n\t"), s(`"c"`), c("\n")}},
	{"rune-brace", []seg{c("ch := "), r("'{'"), c("\n")}},
	{"rune-quote", []seg{c("ch = "), r(`'\''`), c("\n")}},
	{"rune-dquote", []seg{c("ch = "), r(`'"'`), c("\n")}},
	{"rune-backquote", []seg{c("ch = "), r("'`'"), c("\n")}},
	{"line-comment", []seg{k("// line comment { ( \" ' `\n")}},
	{"block-comment", []seg{k("/* block\n comment { ' \"\n * more */"), c("\n")}},
	{"stmt-then-comment", []seg{c("x++ "), k("// trailing { comment\n")}},
	{"incdec", []seg{c("x++\n")}},
	{"decdec", []seg{c("x--\n")}},
	{"plus-unary", []seg{c("y := x + +1\n")}},
	{"minus-unary", []seg{c("y = x - -x\n")}},
	{"op-comment-between", []seg{c("x = x *\n\t"), k("// comment between\n"), c("\t3\n")}},
	{"op-block-comment-between", []seg{c("x = x + "), k("/* c1\n c2 */"), c("\n\t4\n")}},
	{"if-else", []seg{c("if x > 0 {\n\tx = 1\n} else {\n\tx = 2\n}\n")}},
	{"func-decl", []seg{c("func g(a int) int {\n\treturn a\n}\n")}},
	{"type-struct", []seg{c("type T struct {\n\tA int "), k("// field\n"), c("\tB string\n}\n")}},
	{"for-empty", []seg{c("for i := 0; i < 3; i++ {\n}\n")}},
	{"var-group", []seg{c("var (\n\tv1 = 1\n\tv2 = "), s(`"x"`), c("\n)\n")}},
	{"map-lit", []seg{c("m := map[string]int{"), s(`"a"`), c(": 1,\n\t"), s(`"b"`), c(": 2}\n")}},
	{"kw-go", []seg{c("go\n\tg(1)\n")}},
	{"kw-defer", []seg{c("defer\n\tg(2)\n")}},
	{"kw-var", []seg{c("var\n\tz int\n")}},
	{"kw-type", []seg{c("type\n\tU int\n")}},
	{"kw-const", []seg{c("const\n\tK = 1\n")}},
	{"kw-func-lit", []seg{c("fl := func\n() {}\n")}},
	{"recv-arrow", []seg{c("v := <-\n\tch\n")}},
	{"blank", []seg{c("\n")}},
	{"blank-spaces", []seg{c("   \t\n")}},
	{"tilde-quote", []seg{c("q := ~quote{\n\tx + 1\n}\n")}},
	{"tilde-tick", []seg{c("q = ~'{y}\n")}},
	{"tilde-dquote", []seg{c("q = ~\"{y +\n\t1}\n")}},
	{"label-break", []seg{c("for {\n\tbreak\n}\n")}},
	{"return-in-func", []seg{c("func h() int {\n\treturn\n\t\t1\n}\n")}},
	{"struct-lit-comma", []seg{c("t := T{A: 1,\n\tB: "), s(`"b, }"`), c("}\n")}},
	{"paren-string-bracket", []seg{c("f(len("), s(`")"`), c("),\n\t2)\n")}},
}

// lines longer than bufio's default buffer (4096 bytes): the reader must still see them
// as one line
func init() {
	long := func(unit string, n int) string {
		var b bytes.Buffer
		for i := 0; i < n; i++ {
			b.WriteString(unit)
		}
		return b.String()
	}
	c26Pieces = append(c26Pieces,
		piece{"long-line-comment", []seg{k("// " + long("{ ( ' \" [ ` word ", 280) + "\n")}},
		piece{"long-code-line", []seg{c("x = 1" + long("; x = 2", 700) + "\n")}},
		piece{"long-string", []seg{c("s = "), s("\"" + long("ab } ) ' // ", 400) + "\""), c("\n")}},
		piece{"long-stmt-then-comment", []seg{c("f(" + long("1, ", 1500) + "2) "), k("// tail { ' \"\n")}},
	)
}

var c26Shebang = piece{"shebang", []seg{k("#!/usr/bin/env gomacro { \" '\n")}}

type genStream struct {
	Data     []byte
	Inside   []bool // Inside[o]: a cut at offset o lies strictly inside a string/raw string/rune/comment
	Depth    []int  // Depth[o]: brackets open after consuming o bytes
	Names    []string
	Shebang  bool
	ends     []int // offsets right after each piece: the statement boundaries
	endDepth int
}

// IsBoundary reports whether a chunk may end at offset o.
func (g *genStream) IsBoundary(o int) bool {
	for _, e := range g.ends {
		if e == o {
			return true
		}
	}
	return o == len(g.Data) // end of stream (possibly without final newline)
}

// DepthAt returns the number of open brackets after consuming o bytes.
func (g *genStream) DepthAt(o int) int {
	if o < len(g.Depth) {
		return g.Depth[o]
	}
	return g.endDepth
}

// InsideAt reports whether offset o lies strictly inside a token that must not be cut.
func (g *genStream) InsideAt(o int) bool {
	return o < len(g.Inside) && g.Inside[o]
}

// Expected returns the bytes the reader must return for the first n input bytes.
func (g *genStream) Expected(n int) []byte {
	out := append([]byte(nil), g.Data[:n]...)
	if g.Shebang && len(out) >= 2 {
		out[0], out[1] = '/', '/'
	}
	return out
}

// genC26 assembles a stream of n drawn pieces.
func genC26(ch *sim.Stream, npieces int, crlf bool, shebang bool, noFinalNewline bool) *genStream {
	g := &genStream{Shebang: shebang}
	depth := 0
	add := func(p piece) {
		g.Names = append(g.Names, p.name)
		for _, sg := range p.segs {
			text := sg.text
			if crlf && sg.kind != 's' && sg.kind != 'r' {
				text = string(bytes.ReplaceAll([]byte(text), []byte("\n"), []byte("\r\n")))
			}
			for i := 0; i < len(text); i++ {
				// state before consuming byte i of this segment
				g.Inside = append(g.Inside, sg.kind != 'c' && i > 0)
				g.Depth = append(g.Depth, depth)
				if sg.kind == 'c' {
					switch text[i] {
					case '(', '[', '{':
						depth++
					case ')', ']', '}':
						depth--
					}
				}
			}
			g.Data = append(g.Data, text...)
		}
		g.markEnd(depth)
	}
	if shebang {
		add(c26Shebang)
	}
	for i := 0; i < npieces; i++ {
		add(c26Pieces[ch.Draw(len(c26Pieces))])
	}
	if noFinalNewline {
		// drop the final newline (only if the last byte is a code newline)
		n := len(g.Data)
		if n > 0 && g.Data[n-1] == '\n' && !g.Inside[n-1] {
			cut := 1
			if crlf && n > 1 && g.Data[n-2] == '\r' {
				cut = 2
			}
			g.Data = g.Data[:n-cut]
		}
	}
	return g
}

func (g *genStream) markEnd(depth int) {
	// Boundary/Depth/Inside are indexed by offsets < len(Data); the boundary at offset
	// len(Data) (end of stream so far) is recorded in ends
	g.ends = append(g.ends, len(g.Data))
	g.endDepth = depth
}
