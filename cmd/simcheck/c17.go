package simcheck

import (
	"fmt"
	"regexp"
	"sort"
	"strconv"
	"strings"
	"testing"
	"time"

	"github.com/cosmos72/gomacro/base/dep"
	"github.com/cosmos72/gomacro/go/etoken"
	mp "github.com/cosmos72/gomacro/go/parser"

	"verif/sim"
	"verif/simmap"
)

// ---------------------------------------------------------------- generator

type c17Decl struct {
	Kind string // var const func type
	Name string
	Refs []int // indices of the declarations whose names occur free in it (by construction)
	Src  string
	Run  int // index of the run of declarations it belongs to
}

type c17Input struct {
	Decls   []c17Decl
	Src     string
	Package bool
	Imports int
	Stmts   []int // Stmts[r] = number of statements after run r
}

var c17KindNames = []string{"var", "const", "func", "type"}

func c17Allowed(from, to string) bool {
	switch from {
	case "const":
		return to == "const"
	case "type":
		return to == "type" || to == "const"
	}
	return true
}

func genC17(gen *sim.Stream, maxDecls int) *c17Input {
	in := &c17Input{}
	n := 2 + gen.Draw(maxDecls-1)
	kinds := make([]string, n)
	names := make([]string, n)
	for i := 0; i < n; i++ {
		kinds[i] = c17KindNames[gen.Draw(4)]
		names[i] = string(rune('a' + i))
		if kinds[i] == "type" {
			names[i] = "T" + strings.ToUpper(names[i])
		}
	}
	density := 2 + gen.Draw(4) // edge probability 1/density
	refs := make([][]int, n)
	for i := 0; i < n; i++ {
		for j := 0; j < n; j++ {
			if i != j && c17Allowed(kinds[i], kinds[j]) && gen.Draw(density) == 0 {
				refs[i] = append(refs[i], j)
			}
		}
	}
	// consecutive vars sometimes share one spec with an explicit type whose expression
	// mentions an identifier twice: `var a, b map[int]int = ..., ...`
	pairWith := make([]int, n) // index of the second name of the spec, 0 = none
	second := make([]bool, n)
	mapvar := make([]int, n) // 0 no, r > 0: map type nested r deep, r < 0: func type with -r parameters
	for i := 0; i+1 < n; i++ {
		if kinds[i] == "var" && kinds[i+1] == "var" && !second[i] && gen.Draw(3) == 0 {
			pairWith[i] = i + 1
			second[i+1] = true
			r := 1 + gen.Draw(4)
			if gen.Draw(2) == 0 {
				r = -r
			}
			mapvar[i], mapvar[i+1] = r, r
		}
	}
	// vars that nobody references are sometimes named _ (as in `var _ I = T{}` assertions):
	// several declarations then share one name but keep their own dependencies and position.
	// Internally they are called _@<index>.
	blank := make([]bool, n)
	for i := 0; i < n; i++ {
		if kinds[i] != "var" || pairWith[i] != 0 || second[i] || gen.Draw(3) != 0 {
			continue
		}
		referenced := false
		for k := 0; k < n; k++ {
			for _, j := range refs[k] {
				if j == i {
					referenced = true
				}
			}
		}
		if !referenced {
			blank[i] = true
		}
	}
	// map-typed pairs are initialised through a helper function declared last in the source
	// (one per nesting depth); it is an ordinary declaration of the graph
	helper := map[int]int{}
	for i := 0; i < n; i++ {
		if r := mapvar[i]; r > 0 && gen.Draw(3) != 0 {
			h, ok := helper[r]
			if !ok {
				h = len(names)
				helper[r] = h
				names = append(names, fmt.Sprintf("z%d", r))
				kinds = append(kinds, "func")
				refs = append(refs, nil)
				pairWith = append(pairWith, 0)
				second = append(second, false)
				mapvar = append(mapvar, 0)
				blank = append(blank, false)
			}
			refs[i] = append(refs[i], h)
		}
	}
	nOrig := n
	n = len(names)
	pairType := func(r int) string {
		if r > 0 {
			return strings.Repeat("map[int]", r) + "int"
		}
		return "func(" + strings.TrimSuffix(strings.Repeat("int, ", -r), ", ") + ") int"
	}
	pairInit := func(r int, expr string, k int) string {
		if r > 0 {
			if h, ok := helper[r]; ok && strings.Contains(expr, names[h]+"()") {
				// the helper is among the references: call it with the remaining terms
				rest := strings.TrimSuffix(strings.TrimPrefix(strings.Replace(expr, names[h]+"()", "", 1), " + "), " + ")
				rest = strings.Replace(rest, " +  + ", " + ", 1)
				if rest == "" {
					rest = "2"
				}
				return names[h] + "(" + rest + ")"
			}
			return pairType(r) + "{" + strings.Repeat(fmt.Sprint(k)+": {", r-1) + fmt.Sprint(k) + ": " + expr + strings.Repeat("}", r)
		}
		var ps []string
		for q := 0; q < -r; q++ {
			ps = append(ps, fmt.Sprintf("p%d", q))
		}
		return fmt.Sprintf("func(%s int) int {\n\treturn p0 + %s\n}", strings.Join(ps, ", "), expr)
	}
	// a name that is NOT referenced by i, used as a shadowing parameter/result/local in i
	decoy := func(i int) string {
		var cand []string
		for j := 0; j < n; j++ {
			if j == i || kinds[j] == "type" || blank[j] {
				continue
			}
			isRef := false
			for _, r := range refs[i] {
				if r == j {
					isRef = true
				}
			}
			if !isRef {
				cand = append(cand, names[j])
			}
		}
		if len(cand) == 0 || gen.Draw(2) == 0 {
			return ""
		}
		return cand[gen.Draw(len(cand))]
	}
	use := func(j int) string {
		switch kinds[j] {
		case "func":
			return names[j] + "()"
		case "type":
			return "len([]" + names[j] + "{})"
		}
		if kinds[j] == "const" && gen.Draw(4) == 0 {
			// the constant as key of a map / array / slice literal (also with elided inner types)
			return []string{"len(map[int]int{" + names[j] + ": 1})", "len([...]int{" + names[j] + ": 1})",
				"len(map[int][]int{1: {" + names[j] + ": 1}})", "len([]int{" + names[j] + ": 2})"}[gen.Draw(4)]
		}
		if r := mapvar[j]; r > 0 {
			return "len(" + names[j] + ")"
		} else if r < 0 {
			return names[j] + "(" + strings.TrimSuffix(strings.Repeat("1, ", -r), ", ") + ")"
		}
		return names[j]
	}
	exprOf := func(i int) string {
		var terms []string
		for _, j := range refs[i] {
			terms = append(terms, use(j))
		}
		if len(terms) == 0 {
			return "1"
		}
		return strings.Join(terms, " + ")
	}
	for i := 0; i < n; i++ {
		d := c17Decl{Kind: kinds[i], Name: names[i], Refs: refs[i]}
		srcName := names[i]
		if blank[i] {
			d.Name = fmt.Sprintf("_@%d", i)
			srcName = "_"
		}
		var terms []string
		for _, j := range refs[i] {
			terms = append(terms, use(j))
		}
		expr := "1"
		if len(terms) > 0 {
			expr = strings.Join(terms, " + ")
		}
		switch kinds[i] {
		case "const":
			d.Src = fmt.Sprintf("const %s = %s\n", names[i], expr)
		case "var":
			if second[i] {
				break // rendered together with the previous declaration
			}
			if k := pairWith[i]; k != 0 {
				r := mapvar[i]
				d.Src = fmt.Sprintf("var %s, %s %s = %s, %s\n", names[i], names[k], pairType(r), pairInit(r, expr, 0), pairInit(r, exprOf(k), 1))
				break
			}
			switch gen.Draw(3) {
			case 0:
				d.Src = fmt.Sprintf("var %s = %s\n", srcName, expr)
			case 1:
				// a function literal whose parameter shadows an unrelated global
				if dc := decoy(i); dc != "" {
					d.Src = fmt.Sprintf("var %s = func(%s int) int {\n\treturn %s + %s\n}(2)\n", srcName, dc, dc, expr)
				} else {
					d.Src = fmt.Sprintf("var %s = func() int {\n\treturn %s\n}()\n", srcName, expr)
				}
			case 2:
				d.Src = fmt.Sprintf("var %s int = (%s)\n", srcName, expr)
			}
		case "type":
			var fields []string
			for k, j := range refs[i] {
				if kinds[j] == "type" {
					fields = append(fields, fmt.Sprintf("\tF%d *%s\n", k, names[j]))
				} else {
					if gen.Draw(3) == 0 {
						// a field with the same name as the constant: field names are not in
						// scope inside the struct type, the array length below is the constant
						fields = append(fields, fmt.Sprintf("\t%s int\n", names[j]))
					}
					switch gen.Draw(4) {
					case 0:
						fields = append(fields, fmt.Sprintf("\tF%d func(%s int) [%s]int\n", k, names[j], names[j]))
					case 1:
						fields = append(fields, fmt.Sprintf("\tF%d interface {\n\t\t%s()\n\t\tM() [%s]int\n\t}\n", k, names[j], names[j]))
					default:
						fields = append(fields, fmt.Sprintf("\tF%d [%s]int\n", k, names[j]))
					}
				}
			}
			if gen.Draw(3) == 0 {
				fields = append(fields, fmt.Sprintf("\tSelf *%s\n", names[i]))
			}
			d.Src = fmt.Sprintf("type %s struct {\n%s}\n", names[i], strings.Join(fields, ""))
		case "func":
			if i >= nOrig {
				r := 0
				fmt.Sscanf(names[i], "z%d", &r)
				d.Src = fmt.Sprintf("func %s(x int) %s {\n\treturn nil\n}\n", names[i], pairType(r))
				break
			}
			var body strings.Builder
			params, results := "", "int"
			dc := decoy(i)
			switch {
			case dc != "" && gen.Draw(3) == 0:
				params = dc + " int"
				fmt.Fprintf(&body, "\t_ = %s\n", dc)
			case dc != "" && gen.Draw(2) == 0:
				results = "(" + dc + " int)"
				fmt.Fprintf(&body, "\t%s = 3\n", dc)
			case dc != "":
				fmt.Fprintf(&body, "\t%s := 4\n\t_ = %s\n", dc, dc)
			}
			// references at block depth 0..2
			for _, j := range refs[i] {
				if kinds[j] != "type" && gen.Draw(4) == 0 {
					// a local of the same name in an inner block (or an if branch) goes out of
					// scope before the reference below: the reference does count
					if gen.Draw(2) == 0 {
						fmt.Fprintf(&body, "\t{\n\t\t%s := 5\n\t\t_ = %s\n\t}\n", names[j], names[j])
					} else {
						fmt.Fprintf(&body, "\tif true {\n\t\t%s := 6\n\t\t_ = %s\n\t} else {\n\t\t_ = 7\n\t}\n", names[j], names[j])
					}
				}
				depth := gen.Draw(3)
				ind := strings.Repeat("\t", depth+1)
				for k := 0; k < depth; k++ {
					body.WriteString(strings.Repeat("\t", k+1) + "{\n")
				}
				if kinds[j] == "type" && gen.Draw(2) == 0 {
					fmt.Fprintf(&body, "%svar t%d %s\n%s_ = t%d\n", ind, j, names[j], ind, j)
				} else {
					fmt.Fprintf(&body, "%s_ = %s\n", ind, use(j))
				}
				for k := depth - 1; k >= 0; k-- {
					body.WriteString(strings.Repeat("\t", k+1) + "}\n")
				}
			}
			if gen.Draw(4) == 0 {
				fmt.Fprintf(&body, "\tif false {\n\t\t%s(%s)\n\t}\n", names[i], map[bool]string{true: "1", false: ""}[params != ""])
			}
			if lb := decoy(i); lb != "" && lb != dc {
				// a label named like an unrelated global is not a reference to it
				fmt.Fprintf(&body, "\tgoto %s\n%s:\n\tfor {\n\t\tbreak %s\n\t}\n", lb, lb, lb)
			}
			d.Src = fmt.Sprintf("func %s(%s) %s {\n%s\treturn 0\n}\n", names[i], params, results, body.String())
		}
		in.Decls = append(in.Decls, d)
	}
	// assemble: optional package clause and imports, runs of declarations separated by statements
	var b strings.Builder
	if gen.Draw(3) == 0 {
		in.Package = true
		b.WriteString("package p\n")
	}
	in.Imports = gen.Draw(3)
	for k := 0; k < in.Imports; k++ {
		b.WriteString([]string{"import \"fmt\"\n", "import str \"strings\"\n"}[k%2])
	}
	run := 0
	in.Stmts = []int{0}
	for i := range in.Decls {
		if i > 0 && !second[i] && gen.Draw(5) == 0 {
			ns := 1 + gen.Draw(2)
			for k := 0; k < ns; k++ {
				b.WriteString([]string{"println(1)\n", "if true {\n\tprintln(2)\n}\n"}[gen.Draw(2)])
			}
			in.Stmts[run] = ns
			run++
			in.Stmts = append(in.Stmts, 0)
		}
		in.Decls[i].Run = run
		b.WriteString(in.Decls[i].Src)
	}
	in.Src = b.String()
	return in
}

// ---------------------------------------------------------------- running the sorter

type c17Out struct {
	Items []string // "Kind:Name"
	Err   string
}

func (o c17Out) String() string {
	if o.Err != "" {
		return "ERROR " + o.Err
	}
	return strings.Join(o.Items, " ")
}

func c17Sort(src string) (out c17Out) {
	defer func() {
		if r := recover(); r != nil {
			out.Err = strings.SplitN(fmt.Sprint(r), "\n", 2)[0]
		}
	}()
	var p mp.Parser
	fset := etoken.NewFileSet()
	p.Init(fset, "c17.go", 0, []byte(src))
	nodes, err := p.Parse()
	if err != nil {
		panic(sim.HarnessFault{Msg: "generated source does not parse: " + err.Error() + "\n" + src})
	}
	s := dep.NewSorter()
	s.LoadNodes(nodes)
	for _, d := range s.All() {
		out.Items = append(out.Items, d.Kind.String()+":"+d.Name)
	}
	return out
}

var c17BlankRe = regexp.MustCompile(`^Var:(\d+)\._$`)

// c17NameBlanks gives the declarations named _ (the sorter calls them <n>._ with n growing in
// source order) the internal names the generator uses for them
func c17NameBlanks(in *c17Input, out c17Out) c17Out {
	var internal []string
	for _, d := range in.Decls {
		if strings.HasPrefix(d.Name, "_@") {
			internal = append(internal, d.Name)
		}
	}
	var nums []int
	for _, it := range out.Items {
		if m := c17BlankRe.FindStringSubmatch(it); m != nil {
			k, _ := strconv.Atoi(m[1])
			nums = append(nums, k)
		}
	}
	sort.Ints(nums)
	if len(nums) != len(internal) {
		return out // reported as missing / duplicate by the checks that follow
	}
	rank := map[int]string{}
	for i, k := range nums {
		rank[k] = internal[i]
	}
	res := c17Out{Err: out.Err}
	for _, it := range out.Items {
		if m := c17BlankRe.FindStringSubmatch(it); m != nil {
			k, _ := strconv.Atoi(m[1])
			it = "Var:" + rank[k]
		}
		res.Items = append(res.Items, it)
	}
	return res
}

func init() {
	register(&Prop{
		ID:    "C17",
		Level: "exploration",
		Rule: "one run = one dependency graph over 2..9 declarations of mixed kinds (quick; thorough up to 12) rendered as Go source with the references placed in initialisers, function-literal bodies, struct field types, array lengths and function bodies at block depth 0..2, with parameters / results / locals that shadow unrelated package-level names, pairs of vars sharing one spec with an explicit type, struct fields / function-type parameters / interface methods named like a referenced constant, constants as keys of map, array and slice literals, labels named like unrelated globals, several vars named _ with different dependencies, optional package clause, imports and statements between runs of declarations; sorted under 1 canonical and 12 seeded map-iteration orders (every `range` over a map in base/dep is rewritten at check time to an order the simulator permutes); " +
			"non-trivial = at least 3 declarations and 2 dependency edges; distinct = distinct source text",
		Runs: func(tier string) int {
			if tier == "thorough" {
				return 400000
			}
			return 40000
		},
		WallBudget: func(tier string) time.Duration {
			if tier == "thorough" {
				return 25 * time.Minute
			}
			return 60 * time.Second
		},
		Run:        runC17,
		FaultKinds: []string{"map_iteration_order_permuted"},
		ProbeNames: []string{"map_iterations_routed", "map_iterations_over_2_or_more_keys", "acyclic_inputs", "type_cycle_inputs", "declaration_loop_inputs", "inputs_with_shadowing", "inputs_with_statements_between_runs"},
		RealVsStub: []string{
			"real: base/dep (scope analysis, graph, sorter) compiled from /repo's current tree, the repository's parser",
			"stub: Go's map iteration order inside base/dep only (go build -overlay of a rewritten scratch copy; /repo is untouched)",
		},
		Assumptions: []string{
			"the free names of every declaration are known by construction of the generator (no second free-variable analysis is trusted)",
			"for inputs with a dependency cycle through types only determinism and the ordering constraints are checked (the property leaves the choice of forward declarations open); for acyclic inputs the order must be exactly 'repeatedly emit the earliest declaration in the source whose dependencies were all emitted'",
			"multi-name var specs with an explicit type are generated for pairs of consecutive vars; iota groups and methods are not generated",
		},
	})
}

func runC17(t *testing.T, ch *sim.Choices, tier string) (o Outcome) {
	gen := ch.Stream("gen")
	max := 8
	if tier == "thorough" {
		max = 11
	}
	in := genC17(gen, max)
	n := len(in.Decls)
	nedges := 0
	idx := map[string]int{}
	for i, d := range in.Decls {
		idx[d.Name] = i
		nedges += len(d.Refs)
	}
	simmap.Calls, simmap.MultiKey = 0, 0
	simmap.Order = nil
	ref := c17NameBlanks(in, c17Sort(in.Src))
	if simmap.Calls == 0 {
		panic(sim.HarnessFault{Msg: "the map-iteration overlay is not active in this binary (build with check.sh C17)"})
	}
	outs := []c17Out{ref}
	order := ch.Stream("order")
	for k := 0; k < 12; k++ {
		simmap.Order = func(m int) []int {
			p := make([]int, m)
			for i := range p {
				p[i] = i
			}
			for i := m - 1; i > 0; i-- {
				j := order.Draw(i + 1)
				p[i], p[j] = p[j], p[i]
			}
			return p
		}
		outs = append(outs, c17NameBlanks(in, c17Sort(in.Src)))
	}
	simmap.Order = nil
	o.fault("map_iteration_order_permuted", 12)
	o.probe("map_iterations_routed", simmap.Calls)
	o.probe("map_iterations_over_2_or_more_keys", simmap.MultiKey)
	o.Steps = 13
	o.Hash = sim.HashString(in.Src)
	o.EventHash = sim.HashString(ref.String())
	o.Nontrivial = n >= 3 && nedges >= 2
	if strings.Contains(in.Src, "int {\n\t_ = ") || strings.Contains(in.Src, ":= 4") || strings.Contains(in.Src, " int)") {
		o.probe("inputs_with_shadowing", 1)
	}
	if len(in.Stmts) > 1 {
		o.probe("inputs_with_statements_between_runs", 1)
	}
	o.Sample = map[string]interface{}{"source": in.Src, "sorted": ref.String()}
	fail := func(class, key, msg string) {
		var all []string
		for k, x := range outs {
			all = append(all, fmt.Sprintf("order %2d: %s", k, x))
		}
		o.fail(class, normKey("c17", key), msg+"\nsource:\n"+in.Src+"\n"+joinLines(all))
	}
	// (i) deterministic: identical under every iteration order
	for k, x := range outs[1:] {
		if x.String() != ref.String() {
			fail("nondeterministic", "order-dependent", fmt.Sprintf("the result depends on map iteration order: canonical order gives\n  %s\npermuted order %d gives\n  %s", ref, k+1, x))
			return
		}
	}
	// classify the graph per run of declarations: cycles through types only / through a non-type
	cyc := c17Cycles(in)
	switch {
	case cyc == "non-type":
		o.probe("declaration_loop_inputs", 1)
		if !strings.Contains(ref.Err, "declaration loop") {
			fail("loop-not-reported", "missing-loop-error", "a dependency cycle without any type declaration must be reported as a declaration loop, got: "+ref.String())
		}
		return
	case ref.Err != "":
		fail("spurious-error", "error:"+stripDigits(ref.Err), "the input has no dependency cycle outside types but the sorter failed: "+ref.Err)
		return
	case cyc == "type":
		o.probe("type_cycle_inputs", 1)
	default:
		o.probe("acyclic_inputs", 1)
	}
	// (ii) every name exactly once (forward declarations aside), dependencies first
	pos := map[string]int{}
	fwd := map[string]int{}
	var declOrder []string
	for k, it := range ref.Items {
		kn := strings.SplitN(it, ":", 2)
		switch kn[0] {
		case "TypeFwd":
			if _, dup := fwd[kn[1]]; dup {
				fail("duplicate", "dup-fwd", "type "+kn[1]+" is forward declared twice")
				return
			}
			fwd[kn[1]] = k
		case "Var", "Const", "Func", "Type":
			if _, dup := pos[kn[1]]; dup {
				fail("duplicate", "dup", "declaration "+kn[1]+" is returned twice")
				return
			}
			pos[kn[1]] = k
			declOrder = append(declOrder, kn[1])
		}
	}
	for _, d := range in.Decls {
		if _, ok := pos[d.Name]; !ok {
			fail("missing", "missing", "declaration "+d.Name+" is not returned")
			return
		}
	}
	for _, d := range in.Decls {
		for _, j := range d.Refs {
			dn := in.Decls[j].Name
			if in.Decls[j].Run != d.Run {
				continue // other run of declarations: ordered by the phase split
			}
			if pos[dn] < pos[d.Name] {
				continue
			}
			if f, ok := fwd[dn]; ok && in.Decls[j].Kind == "type" && d.Kind == "type" && f < pos[d.Name] && cyc == "type" {
				// only a type may make do with the forward declaration of a type it mentions:
				// every other declaration waits for the full declaration
				continue
			}
			fail("order", "dependency-after-use", fmt.Sprintf("%s references %s, which is declared after it (and not forward declared before it)", d.Name, dn))
			return
		}
	}
	// (iv) phase split: runs of declarations are not mixed, statements stay between them
	lastRun := -1
	for _, name := range declOrder {
		r := in.Decls[idx[name]].Run
		if r < lastRun {
			fail("phase", "runs-mixed", fmt.Sprintf("declaration %s of run %d is returned after a declaration of run %d", name, r, lastRun))
			return
		}
		lastRun = r
	}
	if !c17PhasesOK(in, ref.Items) {
		fail("phase", "statements-moved", "package clause, imports or statements were moved across runs of declarations: "+ref.String())
		return
	}
	// (iii) acyclic: exactly the reference order
	if cyc == "" {
		want := c17Reference(in)
		if got := strings.Join(declOrder, " "); got != strings.Join(want, " ") {
			fail("order", "not-source-stable", fmt.Sprintf("acyclic input: expected order (earliest declaration in the source whose dependencies are all emitted) %v, got %v", want, declOrder))
		}
	}
	return
}

// c17Cycles: "" no cycle, "type" every cycle contains a type declaration... precisely:
// "non-type" if some cycle consists of non-type declarations only (then a loop error is due),
// "type" if there are cycles but each contains at least one type, "" if acyclic.
func c17Cycles(in *c17Input) string {
	n := len(in.Decls)
	reach := func(skipTypes bool) bool {
		// is there a cycle in the graph (restricted to non-type nodes if skipTypes)?
		color := make([]int, n)
		var visit func(i int) bool
		visit = func(i int) bool {
			color[i] = 1
			for _, j := range in.Decls[i].Refs {
				if in.Decls[j].Run != in.Decls[i].Run {
					continue
				}
				if skipTypes && in.Decls[j].Kind == "type" {
					continue
				}
				if color[j] == 1 || (color[j] == 0 && visit(j)) {
					return true
				}
			}
			color[i] = 2
			return false
		}
		for i := 0; i < n; i++ {
			if skipTypes && in.Decls[i].Kind == "type" {
				continue
			}
			if color[i] == 0 && visit(i) {
				return true
			}
		}
		return false
	}
	if reach(true) {
		return "non-type"
	}
	if reach(false) {
		return "type"
	}
	return ""
}

func c17Reference(in *c17Input) []string {
	n := len(in.Decls)
	done := make([]bool, n)
	var out []string
	for len(out) < n {
		progressed := false
		for i := 0; i < n && !progressed; i++ {
			if done[i] {
				continue
			}
			// runs are emitted one after the other
			ready := true
			for k := 0; k < n; k++ {
				if !done[k] && in.Decls[k].Run < in.Decls[i].Run {
					ready = false
				}
			}
			for _, j := range in.Decls[i].Refs {
				if in.Decls[j].Run == in.Decls[i].Run && !done[j] {
					ready = false
				}
			}
			if ready {
				done[i] = true
				out = append(out, in.Decls[i].Name)
				progressed = true
			}
		}
		if !progressed {
			panic(sim.HarnessFault{Msg: "reference order: cyclic input"})
		}
	}
	return out
}

// c17PhasesOK checks the coarse shape: [Package] [Import...] then per run: declarations, statements
func c17PhasesOK(in *c17Input, items []string) bool {
	k := 0
	kind := func(i int) string { return strings.SplitN(items[i], ":", 2)[0] }
	if in.Package {
		if k >= len(items) || kind(k) != "Package" {
			return false
		}
		k++
	}
	for i := 0; i < in.Imports; i++ {
		if k >= len(items) || kind(k) != "Import" {
			return false
		}
		k++
	}
	for r, ns := range in.Stmts {
		nd := 0
		for _, d := range in.Decls {
			if d.Run == r {
				nd++
			}
		}
		seen := 0
		for k < len(items) && seen < nd {
			switch kind(k) {
			case "Var", "Const", "Func", "Type":
				seen++
			case "TypeFwd":
			default:
				return false
			}
			k++
		}
		if seen < nd {
			return false
		}
		for i := 0; i < ns; i++ {
			if k >= len(items) || (kind(k) != "Stmt" && kind(k) != "Expr") {
				return false
			}
			k++
		}
	}
	return k == len(items)
}
