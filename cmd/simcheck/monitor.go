package simcheck

import (
	"fmt"
	"sync"

	"github.com/cosmos72/gomacro/fast"

	"verif/sim"
)

// ownMonitor checks, at every frame allocation and release (hook H2) and at every identity
// query (hook H3), that runtime records and frames are owned by exactly one live task.
// It is called concurrently by overlapping tasks: fixed arrays, one harness lock, no maps
// (runtime map code is race-instrumented and the lock's happens-before is hidden).
type ownMonitor struct {
	s    *sim.Sched
	mu   sync.Mutex
	mode int // 0 real identities, 1 reuse-stress (simulated identities)

	nruns int
	runs  [64]struct {
		run   *fast.Run
		owner *sim.Task
	}
	nframes int
	frames  [1024]struct {
		env   *fast.Env
		owner *sim.Task
		run   *fast.Run
		state int // 1 in use, 2 pooled
	}
	taskRun [sim.MaxTasks]*fast.Run // the runtime record each task uses
	idents  [8]*sim.Task            // reuse-stress: idents[i] = live task holding simulated identity i+1
	nident  int

	viol     string
	violKey  string
	allocs   int
	recycled int
	inherit  int
	reuse    int
	idchecks int
	overflow bool
}

//go:norace
func (m *ownMonitor) lock() { raceOffX(); m.mu.Lock() }

//go:norace
func (m *ownMonitor) unlock() { m.mu.Unlock(); raceOnX() }

//go:norace
func (m *ownMonitor) fail(key, detail string) {
	if m.viol == "" {
		m.viol, m.violKey = detail, key
	}
}

//go:norace
func (m *ownMonitor) runIndex(run *fast.Run) int {
	for i := 0; i < m.nruns; i++ {
		if m.runs[i].run == run {
			return i
		}
	}
	return -1
}

//go:norace
func (m *ownMonitor) frameIndex(env *fast.Env) int {
	for i := 0; i < m.nframes; i++ {
		if m.frames[i].env == env {
			return i
		}
	}
	return -1
}

// identity the interpreter is expected to have recorded for task t
//
//go:norace
func (m *ownMonitor) identOf(t *sim.Task) uintptr {
	if m.mode == 1 {
		return t.Ident
	}
	return t.Goid()
}

// checkRun: run must be owned by the current task only
//
//go:norace
func (m *ownMonitor) checkRun(cur *sim.Task, run *fast.Run, what string) {
	i := m.runIndex(run)
	if i < 0 {
		if m.nruns == len(m.runs) {
			m.overflow = true
			return
		}
		m.runs[m.nruns].run, m.runs[m.nruns].owner = run, cur
		m.nruns++
	} else if o := m.runs[i].owner; o != cur {
		if !o.Done() {
			m.fail("run-shared:"+what, "runtime record "+ptr(run)+" is used by task "+cur.Name+" while its owner "+o.Name+" is still alive ("+what+")")
			return
		}
		// the record was left behind by a task that has exited: the new goroutine inherits it
		m.inherit++
		m.runs[i].owner = cur
	}
	if id := m.identOf(cur); id != 0 && run.VerifGoid() == id {
		// one goroutine, one record: a second record carrying the same identity means the
		// registry lost (or never had) the first one while its goroutine is still running
		if prev := m.taskRun[cur.Slot]; prev == nil {
			m.taskRun[cur.Slot] = run
		} else if prev != run {
			m.fail("goroutine-uses-two-records:"+what, "task "+cur.Name+" "+what+" through runtime record "+ptr(run)+" although it has been running on record "+ptr(prev)+" (same identity "+uptr(id)+")")
		}
	}
	if id := m.identOf(cur); id != 0 && run.VerifGoid() != id {
		m.fail("run-identity:"+what, "task "+cur.Name+" (identity "+uptr(id)+") "+what+" with a runtime record that belongs to identity "+uptr(run.VerifGoid()))
	}
}

//go:norace
func (m *ownMonitor) envAlloc(run *fast.Run, env *fast.Env, kind int) {
	cur := m.s.Cur()
	if cur == nil {
		return
	}
	m.lock()
	m.allocs++
	m.checkRun(cur, run, "allocates a frame")
	if i := m.frameIndex(env); i >= 0 {
		f := &m.frames[i]
		if f.state == 1 {
			m.fail("frame-double-alloc", "frame "+ptr(env)+" handed to task "+cur.Name+" is still in use by task "+f.owner.Name)
		} else if f.run != run {
			m.fail("frame-crossed-pools", "frame "+ptr(env)+" was pooled in runtime record "+ptr(f.run)+" but is handed out through "+ptr(run)+" to task "+cur.Name)
		} else {
			m.recycled++
		}
		f.state, f.owner, f.run = 1, cur, run
	} else if m.nframes < len(m.frames) {
		f := &m.frames[m.nframes]
		f.env, f.owner, f.run, f.state = env, cur, run, 1
		m.nframes++
	} else {
		m.overflow = true
	}
	m.unlock()
}

//go:norace
func (m *ownMonitor) envFree(run *fast.Run, env *fast.Env) {
	cur := m.s.Cur()
	if cur == nil {
		return
	}
	m.lock()
	m.checkRun(cur, run, "releases a frame")
	if i := m.frameIndex(env); i >= 0 && m.frames[i].state == 1 {
		f := &m.frames[i]
		if f.owner != cur && !f.owner.Done() {
			m.fail("frame-freed-by-other", "frame "+ptr(env)+" allocated by task "+f.owner.Name+" is released by task "+cur.Name)
		}
		f.state = 0 // released; becomes 2 if it is pooled
	}
	m.unlock()
}

//go:norace
func (m *ownMonitor) envRecycle(run *fast.Run, env *fast.Env, n int) bool {
	cur := m.s.Cur()
	if cur == nil {
		return false
	}
	m.lock()
	if i := m.frameIndex(env); i >= 0 {
		m.frames[i].state, m.frames[i].run = 2, run
	}
	m.unlock()
	return false
}

// goID is hook H3. real mode: checks constancy/uniqueness of the interpreter's identity
// against the runtime's goroutine numbers. reuse-stress mode: hands out a simulated identity.
//
//go:norace
func (m *ownMonitor) goID(goid uintptr) uintptr {
	gnum := sim.Gnum()
	t := m.s.TaskByGnum(gnum)
	if t == nil {
		return goid
	}
	id := m.goIDLocked(t, gnum, goid)
	if id != goid {
		// outside the harness lock (inside it the race detector ignores synchronisation)
		sim.RaceIdentStart(id)
	}
	return id
}

//go:norace
func (m *ownMonitor) goIDLocked(t *sim.Task, gnum uint64, goid uintptr) uintptr {
	m.lock()
	defer m.unlock()
	m.idchecks++
	// (iii) the identity computed by the interpreter's own code: constant within a goroutine,
	// distinct among live goroutines (ground truth: runtime goroutine numbers)
	if t.Goid() != goid {
		m.fail("identity-changed", "goroutine "+utoa(gnum)+" (task "+t.Name+") had identity "+uptr(t.Goid())+" at start and "+uptr(goid)+" now")
	}
	dup := ""
	m.s.Live(func(o *sim.Task) {
		if o != t && o.Goid() == goid {
			dup = o.Name
		}
	})
	if dup != "" {
		m.fail("identity-shared", "live tasks "+t.Name+" and "+dup+" observe the same identity "+uptr(goid))
	}
	if m.mode == 0 {
		return goid
	}
	if t.Ident == 0 {
		for i := 0; i < len(m.idents); i++ {
			if m.idents[i] == nil {
				m.idents[i] = t
				t.Ident = uintptr(i + 1)
				if i < m.nident {
					m.reuse++
				} else {
					m.nident = i + 1
				}
				break
			}
		}
		if t.Ident == 0 {
			panic(sim.HarnessFault{Msg: "identity pool exhausted"})
		}
	}
	return t.Ident
}

//go:norace
func (m *ownMonitor) taskExit(t *sim.Task) {
	if t.Ident != 0 {
		sim.RaceIdentExit(t.Ident)
		m.lock()
		m.idents[t.Ident-1] = nil
		m.unlock()
	}
}

func (m *ownMonitor) install() {
	hs.EnvAlloc = m.envAlloc
	hs.EnvFree = m.envFree
	hs.EnvRecycle = m.envRecycle
	hs.GoID = m.goID
	m.s.OnExit = m.taskExit
}

// the formatters run with the race detector listening again: fmt synchronises internally
// (sync.Pool) and the monitor calls them while holding its hidden lock
func ptr(p interface{}) string {
	raceOnX()
	s := fmt.Sprintf("%p", p)
	raceOffX()
	return s
}

func uptr(p uintptr) string {
	raceOnX()
	s := fmt.Sprintf("%#x", p)
	raceOffX()
	return s
}

func utoa(v uint64) string {
	raceOnX()
	s := fmt.Sprint(v)
	raceOffX()
	return s
}
