package simcheck

import (
	"fmt"
	"reflect"
	"sort"
	"strings"
	"testing"
	"time"

	"github.com/cosmos72/gomacro/fast"

	"verif/sim"
)

// sequential store model for REPL histories: variables are cells, pointers and closures are
// references to cells. Values are kept as native Go values of the declared kind, so
// wrap-around and formatting are Go's own.

type c14Cell struct {
	kind string
	val  interface{}
}

type c14Model struct {
	vars     []string // variable names in declaration order
	cell     map[string]*c14Cell
	ptrs     []string
	ptrTo    map[string]*c14Cell
	getters  []string
	getterOf map[string]*c14Cell
	setters  []string
	setterOf map[string]*c14Cell
	funcs    []string
	funcOf   map[string]*c14Cell
	callers  []string
	callerOf map[string]string // function -> name of the getter variable it calls
	n        int
}

var c14Kinds = []string{"int", "int8", "uint16", "bool", "float64", "complex128", "string", "S", "[]int", "int64", "uint8", "Cnt", "Flt"}

// named types with pointer-receiver methods: `v.Inc()` on a global takes its address implicitly
type c14Cnt int
type c14Flt float64

const c14Prelude = "type S struct {\n\tA int\n\tB string\n}\ntype Cnt int\nfunc (c *Cnt) Inc() {\n\t*c++\n}\ntype Flt float64\nfunc (f *Flt) Inc() {\n\t*f += 1\n}"

func c14Literal(kind string, k int) (src string, val interface{}) {
	switch kind {
	case "int":
		return fmt.Sprint(k*7 - 20), k*7 - 20
	case "int64":
		v := int64(k)*1000003 - 5
		return fmt.Sprint(v), v
	case "int8":
		v := int8(k*13 - 60)
		return fmt.Sprint(v), v
	case "uint8":
		v := uint8(k * 37)
		return fmt.Sprint(v), v
	case "uint16":
		v := uint16(k * 4099)
		return fmt.Sprint(v), v
	case "bool":
		return fmt.Sprint(k%2 == 0), k%2 == 0
	case "Cnt":
		return fmt.Sprint(k*3 - 7), c14Cnt(k*3 - 7)
	case "Flt":
		v := float64(k)*0.25 + 1
		return fmt.Sprint(v), c14Flt(v)
	case "float64":
		v := float64(k)*0.5 - 3
		lit := fmt.Sprint(v)
		if !strings.ContainsAny(lit, ".e") {
			lit += ".0" // keep `x := lit` a float64
		}
		return lit, v
	case "complex128":
		v := complex(float64(k), float64(-k)/2)
		return fmt.Sprintf("complex(%v, %v)", real(v), imag(v)), v
	case "string":
		v := fmt.Sprintf("s%d", k)
		return fmt.Sprintf("%q", v), v
	case "S":
		return fmt.Sprintf("S{%d, %q}", k, "x"), struct {
			A int
			B string
		}{k, "x"}
	case "[]int":
		return fmt.Sprintf("[]int{%d, %d}", k, k+1), []int{k, k + 1}
	}
	panic("kind")
}

func c14Zero(kind string) interface{} {
	switch kind {
	case "int":
		return int(0)
	case "int64":
		return int64(0)
	case "int8":
		return int8(0)
	case "uint8":
		return uint8(0)
	case "uint16":
		return uint16(0)
	case "bool":
		return false
	case "Cnt":
		return c14Cnt(0)
	case "Flt":
		return c14Flt(0)
	case "float64":
		return float64(0)
	case "complex128":
		return complex128(0)
	case "string":
		return ""
	case "S":
		return struct {
			A int
			B string
		}{}
	case "[]int":
		return []int(nil)
	}
	panic("kind")
}

func c14Inc(c *c14Cell) bool {
	switch v := c.val.(type) {
	case int:
		c.val = v + 1
	case int64:
		c.val = v + 1
	case int8:
		c.val = v + 1
	case uint8:
		c.val = v + 1
	case uint16:
		c.val = v + 1
	case float64:
		c.val = v + 1
	case complex128:
		c.val = v + 1
	case c14Cnt:
		c.val = v + 1
	case c14Flt:
		c.val = v + 1
	default:
		return false
	}
	return true
}

func init() {
	register(&Prop{
		ID:    "C14",
		Level: "exploration",
		Rule: "one run = one seeded REPL history of 10..60 successive evaluations (one top-level statement each): declarations of variables of integer-slot kinds (int, int8, uint8, uint16, int64, bool, float64, complex128 = two slots) and boxed kinds (string, struct, slice) with var and :=, address-taking into pointer variables, closures and functions capturing globals, functions calling package-level function variables and later assignments of new functions to those variables, assignments directly, through pointers and through closures, increments, bursts of further declarations, and read-backs of every variable, pointer, closure and function; the growth chunk of the global slot arrays (16 values / 1024 integer slots in the shipped configuration) is replaced per run by small values so the arrays are reallocated after almost every declaration; one run in 40 instead replays the shipped configuration with more than 1024 integer declarations; " +
			"non-trivial = an address of an integer-slot variable was taken and at least 5 declarations followed; distinct = distinct history",
		Runs: func(tier string) int {
			if tier == "thorough" {
				return 200000
			}
			return 4000
		},
		WallBudget: func(tier string) time.Duration {
			if tier == "thorough" {
				return 30 * time.Minute
			}
			return 70 * time.Second
		},
		Run:        runC14,
		FaultKinds: []string{"growth_chunk_buggified", "shipped_chunk_long_history", "declaration_after_address_taken"},
		ProbeNames: []string{"redeclarations", "redeclarations_without_initializer", "parallel_redeclarations", "first_evaluation_is_a_switch", "evaluations", "read_backs", "addresses_taken_of_integer_slots", "complex128_declared_after_address_taken", "declarations"},
		RealVsStub: []string{
			"real: Interp.Eval (parse, compile, PrepareEnv/prepareEnv growth, NewBind slot assignment, address-taking), every evaluation is a separate top-level statement as in the REPL",
			"stub: the tuning knob 'minimum growth of the global slot arrays' (hook H5); nothing else",
		},
		Assumptions: []string{
			"decides the second sentence (pointer validity and aliasing across growth) and in-order visibility for the statement kinds above; equality with compiled Go for arbitrary statement kinds is a pure function of the program and is not decided here",
			"re-declaration of an existing name (not valid Go, common at the REPL) is generated with a weak oracle only: the name denotes a fresh variable with the new value and no other variable changes; pointers, closures and functions made for the old variable are dropped from the checks",
		},
	})
}

func runC14(t *testing.T, ch *sim.Choices, tier string) (o Outcome) {
	gen := ch.Stream("gen")
	shipped := gen.Draw(40) == 39
	valDelta := []int{0, 1, 2, 16}[gen.Draw(4)]
	intDelta := []int{0, 1, 3, 8}[gen.Draw(4)]
	ir, out, lerr := newInterp(c14Prelude)
	if lerr != "" {
		o.fail("interp-error", "c14|load", lerr)
		return
	}
	if shipped {
		o.fault("shipped_chunk_long_history", 1)
	} else {
		o.fault("growth_chunk_buggified", 1)
		hs.Growth = func() (int, int, bool) { return valDelta, intDelta, true }
		defer func() { hs.Growth = nil }()
	}
	m := &c14Model{cell: map[string]*c14Cell{}, ptrTo: map[string]*c14Cell{}, getterOf: map[string]*c14Cell{}, setterOf: map[string]*c14Cell{}, funcOf: map[string]*c14Cell{}, callerOf: map[string]string{}}
	var hist []string
	addrTaken, declsAfterAddr := false, 0
	fail := func(class, key, msg string) {
		cfg := fmt.Sprintf("growth chunks: values %d, integers %d", valDelta, intDelta)
		if shipped {
			cfg = "shipped growth chunks (16 / 1024)"
		}
		o.fail(class, normKey("c14", key), cfg+"\n"+msg+"\nhistory:\n"+joinLines(tailList(hist, 80))+tailStr(out.String(), 500))
	}
	// eval evaluates one statement; want != "" means the single result must print as want
	eval := func(src string, want string) bool {
		hist = append(hist, src)
		o.probe("evaluations", 1)
		var got string
		esc := func() (esc interface{}) {
			defer func() { esc = recover() }()
			vs, _ := ir.Eval(src)
			if len(vs) > 0 && vs[0].IsValid() && vs[0].CanInterface() {
				got = fmt.Sprint(vs[0].Interface())
			}
			return nil
		}()
		if esc != nil {
			msg := fmt.Sprint(esc)
			key := "eval-error"
			if strings.Contains(msg, "attempt to reallocate Env.Ints") {
				key = "ints-reallocated-after-address-taken"
			}
			fail("eval-error", key, fmt.Sprintf("evaluation %d `%s` failed: %s", len(hist), src, msg))
			return false
		}
		// invariant, checked after every evaluation: the integer slots of the live global
		// variables lie inside the slot array and do not overlap (complex128 takes two)
		if len(ir.Comp.Binds) > 300 && len(hist)%64 != 0 {
			// long histories (shipped configuration): sample the invariant
		} else if msg := c14SlotInvariant(ir); msg != "" {
			fail("slot-invariant", "slots", fmt.Sprintf("after evaluation %d `%s`: %s", len(hist), src, msg))
			return false
		}
		if want != "" {
			o.probe("read_backs", 1)
			if got != want {
				fail("wrong-value", "read-back", fmt.Sprintf("evaluation %d `%s` gives %s, compiled Go executing the same statements in order gives %s", len(hist), src, got, want))
				return false
			}
		}
		return true
	}
	declare := func(kind string) bool {
		m.n++
		name := fmt.Sprintf("v%d", m.n)
		lit, val := c14Literal(kind, m.n)
		src := fmt.Sprintf("var %s %s = %s", name, kind, lit)
		if gen.Draw(3) == 0 {
			switch kind {
			case "int", "bool", "float64", "complex128", "string", "S", "[]int":
				src = fmt.Sprintf("%s := %s", name, lit)
			}
		}
		m.vars = append(m.vars, name)
		m.cell[name] = &c14Cell{kind, val}
		o.probe("declarations", 1)
		if addrTaken {
			declsAfterAddr++
			o.fault("declaration_after_address_taken", 1)
			if kind == "complex128" {
				o.probe("complex128_declared_after_address_taken", 1)
			}
		}
		return eval(src, "")
	}
	isIntSlot := func(kind string) bool {
		switch kind {
		case "string", "S", "[]int":
			return false
		}
		return true
	}
	readAll := func() bool {
		for _, v := range m.vars {
			if !eval(v, fmt.Sprint(m.cell[v].val)) {
				return false
			}
		}
		for _, p := range m.ptrs {
			if !eval("*"+p, fmt.Sprint(m.ptrTo[p].val)) {
				return false
			}
		}
		for _, f := range m.getters {
			if !eval(f+"()", fmt.Sprint(m.getterOf[f].val)) {
				return false
			}
		}
		for _, f := range m.funcs {
			if !eval(f+"()", fmt.Sprint(m.funcOf[f].val)) {
				return false
			}
		}
		for _, f := range m.callers {
			// a function that calls a function VARIABLE sees the function assigned last
			if !eval(f+"()", fmt.Sprint(m.getterOf[m.callerOf[f]].val)) {
				return false
			}
		}
		return true
	}
	steps := 10 + gen.Draw(51)
	if !shipped && gen.Draw(4) == 0 {
		// a statement with a hidden temporary as the very first evaluation (no global exists yet)
		o.probe("first_evaluation_is_a_switch", 1)
		if !eval([]string{"switch (func() int { return 3 })() {\ncase 3:\n}", "switch x := (func() int { return 3 })(); x + 1 {\ncase 4:\n\tx++\n}"}[gen.Draw(2)], "") {
			return
		}
	}
	if shipped {
		// fill the integer slots up to the shipped chunk, take an address, keep declaring
		for i := 0; i < 1020; i++ {
			if !declare([]string{"int", "bool", "uint16"}[i%3]) {
				return
			}
		}
		steps = 40
	}
	for s := 0; s < steps; s++ {
		pick := func(l []string) string { return l[gen.Draw(len(l))] }
		switch op := gen.Draw(16); {
		case op == 15 && len(m.vars) > 0:
			// parallel short declaration that re-declares one name and reads it on the right:
			// `v, c := w, v`. Every operand is evaluated before anything is declared (in Go v is
			// assigned, here it is re-declared: both readings agree on the values).
			v := pick(m.vars)
			old := m.cell[v]
			if old.kind == "[]int" {
				break
			}
			m.n++
			// the re-declared name keeps its kind or (as REPL users do) gets another one
			kind2 := old.kind
			if gen.Draw(2) == 0 {
				if kind2 = pick(c14Kinds); kind2 == "[]int" {
					kind2 = old.kind
				}
			}
			rhs, val := c14Literal(kind2, m.n)
			switch kind2 {
			case "int", "bool", "float64", "complex128", "string", "S":
			default:
				rhs = kind2 + "(" + rhs + ")" // keep the kind: an untyped literal would change it
			}
			for _, w := range m.vars {
				if w != v && m.cell[w].kind == kind2 && gen.Draw(2) == 0 {
					rhs, val = w, m.cell[w].val
					break
				}
			}
			nw := fmt.Sprintf("v%d", m.n)
			m.cell[v] = &c14Cell{kind2, val}
			m.cell[nw] = &c14Cell{old.kind, old.val}
			m.vars = append(m.vars, nw)
			drop := func(names []string, of map[string]*c14Cell) []string {
				var keep []string
				for _, n := range names {
					if of[n] != old {
						keep = append(keep, n)
					}
				}
				return keep
			}
			m.ptrs = drop(m.ptrs, m.ptrTo)
			m.setters = drop(m.setters, m.setterOf)
			m.funcs = drop(m.funcs, m.funcOf)
			var keepC []string
			for _, c := range m.callers {
				if m.getterOf[m.callerOf[c]] != old {
					keepC = append(keepC, c)
				}
			}
			m.callers = keepC
			m.getters = drop(m.getters, m.getterOf)
			o.probe("parallel_redeclarations", 1)
			if !eval(fmt.Sprintf("%s, %s := %s, %s", v, nw, rhs, v), "") {
				return
			}
		case op == 14 && len(m.vars) > 0:
			// re-declaration of an existing name with another kind, as REPL users do. Go has no
			// such thing at package level, so only what every reading agrees on is required: the
			// name now denotes a fresh variable with the new value and NO OTHER variable changes.
			// Pointers, closures and functions made for the old variable are not used any more.
			v := pick(m.vars)
			old := m.cell[v]
			kind := pick(c14Kinds)
			m.n++
			lit, val := c14Literal(kind, m.n)
			m.cell[v] = &c14Cell{kind, val}
			drop := func(names []string, of map[string]*c14Cell) []string {
				var keep []string
				for _, n := range names {
					if of[n] != old {
						keep = append(keep, n)
					}
				}
				return keep
			}
			m.ptrs = drop(m.ptrs, m.ptrTo)
			m.setters = drop(m.setters, m.setterOf)
			m.funcs = drop(m.funcs, m.funcOf)
			var keepC []string
			for _, c := range m.callers {
				if m.getterOf[m.callerOf[c]] != old {
					keepC = append(keepC, c)
				}
			}
			m.callers = keepC
			m.getters = drop(m.getters, m.getterOf)
			o.probe("redeclarations", 1)
			stmt := fmt.Sprintf("var %s %s = %s", v, kind, lit)
			if gen.Draw(3) == 0 {
				// without initializer: the fresh variable holds the zero value of its kind,
				// whatever the old variable (which may have used the same slot) held
				stmt = fmt.Sprintf("var %s %s", v, kind)
				m.cell[v].val = c14Zero(kind)
				o.probe("redeclarations_without_initializer", 1)
			}
			if !eval(stmt, "") {
				return
			}
		case op == 12 && len(m.getters) > 0:
			// a declared function calling a package-level function variable
			g := pick(m.getters)
			m.n++
			f := fmt.Sprintf("call%d", m.n)
			m.callers = append(m.callers, f)
			m.callerOf[f] = g
			if !eval(fmt.Sprintf("func %s() %s { return %s() }", f, m.getterOf[g].kind, g), "") {
				return
			}
		case op == 13 && len(m.getters) > 0:
			// assign a new function to an existing function variable (same result kind)
			g := pick(m.getters)
			var cand []string
			for _, v := range m.vars {
				if m.cell[v].kind == m.getterOf[g].kind {
					cand = append(cand, v)
				}
			}
			v := pick(cand)
			m.getterOf[g] = m.cell[v]
			if !eval(fmt.Sprintf("%s = func() %s { return %s }", g, m.cell[v].kind, v), "") {
				return
			}
		case op <= 2 || len(m.vars) == 0:
			if !declare(pick(c14Kinds)) {
				return
			}
		case op == 3:
			v := pick(m.vars)
			m.n++
			p := fmt.Sprintf("p%d", m.n)
			m.ptrs = append(m.ptrs, p)
			m.ptrTo[p] = m.cell[v]
			if isIntSlot(m.cell[v].kind) {
				addrTaken = true
				o.probe("addresses_taken_of_integer_slots", 1)
			}
			if !eval(fmt.Sprintf("%s := &%s", p, v), "") {
				return
			}
		case op == 4 && len(m.ptrs) > 0:
			p := pick(m.ptrs)
			m.n++
			lit, val := c14Literal(m.ptrTo[p].kind, m.n)
			m.ptrTo[p].val = val
			if !eval(fmt.Sprintf("*%s = %s", p, lit), "") {
				return
			}
		case op == 5:
			v := pick(m.vars)
			m.n++
			lit, val := c14Literal(m.cell[v].kind, m.n)
			m.cell[v].val = val
			if !eval(fmt.Sprintf("%s = %s", v, lit), "") {
				return
			}
		case op == 6:
			v := pick(m.vars)
			m.n++
			f := fmt.Sprintf("get%d", m.n)
			m.getters = append(m.getters, f)
			m.getterOf[f] = m.cell[v]
			if !eval(fmt.Sprintf("%s := func() %s { return %s }", f, m.cell[v].kind, v), "") {
				return
			}
		case op == 7:
			v := pick(m.vars)
			m.n++
			f := fmt.Sprintf("set%d", m.n)
			m.setters = append(m.setters, f)
			m.setterOf[f] = m.cell[v]
			if !eval(fmt.Sprintf("%s := func(x %s) { %s = x }", f, m.cell[v].kind, v), "") {
				return
			}
		case op == 8 && len(m.setters) > 0:
			f := pick(m.setters)
			m.n++
			lit, val := c14Literal(m.setterOf[f].kind, m.n)
			m.setterOf[f].val = val
			if !eval(fmt.Sprintf("%s(%s)", f, lit), "") {
				return
			}
		case op == 9:
			v := pick(m.vars)
			if c14Inc(m.cell[v]) {
				stmt := v + "++"
				if k := m.cell[v].kind; (k == "Cnt" || k == "Flt") && gen.Draw(3) != 0 {
					stmt = v + ".Inc()" // pointer receiver: takes the address of the global
					if !addrTaken {
						addrTaken = true
					}
					o.probe("addresses_taken_of_integer_slots", 1)
				}
				if !eval(stmt, "") {
					return
				}
			}
		case op == 10:
			v := pick(m.vars)
			m.n++
			f := fmt.Sprintf("fun%d", m.n)
			m.funcs = append(m.funcs, f)
			m.funcOf[f] = m.cell[v]
			if !eval(fmt.Sprintf("func %s() %s { return %s }", f, m.cell[v].kind, v), "") {
				return
			}
		case op == 11:
			// a burst of further declarations
			k := 3 + gen.Draw(12)
			for i := 0; i < k; i++ {
				if !declare(pick(c14Kinds)) {
					return
				}
			}
		default:
			if !readAll() {
				return
			}
		}
		if gen.Draw(6) == 0 && !readAll() {
			return
		}
	}
	if !readAll() {
		return
	}
	o.Steps = len(hist)
	o.Hash = hashStrings(uint64(valDelta*100+intDelta), hist)
	o.EventHash = hashStrings(0, hist)
	o.Nontrivial = addrTaken && declsAfterAddr >= 5
	o.Sample = map[string]interface{}{"growth_values": valDelta, "growth_integers": intDelta, "shipped_configuration": shipped, "history": clipList(hist, 40)}
	return
}

// c14SlotInvariant inspects the compiler's table of global bindings and the global frame.
func c14SlotInvariant(ir *fast.Interp) string {
	env := ir.VerifEnv()
	nints := len(env.Ints)
	type span struct {
		name     string
		from, to int
	}
	var spans []span
	for name, b := range ir.Comp.Binds {
		if b == nil || b.Desc.Class() != fast.IntBind {
			continue
		}
		n := 1
		if b.Type != nil && b.Type.Kind() == reflect.Complex128 {
			n = 2
		}
		idx := b.Desc.Index()
		if idx < 0 {
			continue
		}
		spans = append(spans, span{name, idx, idx + n})
	}
	sort.Slice(spans, func(i, j int) bool {
		if spans[i].from != spans[j].from {
			return spans[i].from < spans[j].from
		}
		return spans[i].name < spans[j].name
	})
	for i, sp := range spans {
		if sp.to > nints && sp.to > cap(env.Ints) {
			return fmt.Sprintf("variable %s occupies integer slots [%d,%d) but the slot array has capacity %d", sp.name, sp.from, sp.to, cap(env.Ints))
		}
		if i > 0 && spans[i-1].to > sp.from {
			return fmt.Sprintf("variables %s (slots [%d,%d)) and %s (slots [%d,%d)) overlap", spans[i-1].name, spans[i-1].from, spans[i-1].to, sp.name, sp.from, sp.to)
		}
	}
	return ""
}
