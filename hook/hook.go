// Package hook holds the compiled decision/observation functions that twin templates call.
// The same template source is compiled natively (importing this package) and evaluated by
// the interpreter (this package is registered in imports.Packages as "verif/hook"), so one
// choice list drives both executions through the same decisions.
package hook

import (
	"fmt"
	"reflect"
	"runtime"
	"strings"
	"sync"
	"time"

	"github.com/cosmos72/gomacro/imports"

	"verif/sim"
)

// Ctx is the per-run context. One run at a time per process.
type Ctx struct {
	S      *sim.Sched  // scheduler (concurrent runs) or nil
	Interp bool        // true while the interpreted twin runs
	Ch     *sim.Stream // choice stream for single-task runs
	Log    []string    // event log for single-task runs
	// Fault, if set, is consulted by Fault(): it may panic
	FaultFn func(site string)
	NFault  int
	NChoose int
}

var Cur *Ctx

// Choose returns a seeded choice in [0,n).
//
//go:norace
func Choose(n int) int {
	c := Cur
	c.NChoose++
	if c.S != nil {
		if t := c.S.Cur(); t != nil {
			return t.Ch.Draw(n)
		}
		panic(sim.HarnessFault{Msg: "hook.Choose outside a task"})
	}
	return c.Ch.Draw(n)
}

func fmtVal(b *strings.Builder, v interface{}) {
	switch x := v.(type) {
	case nil:
		b.WriteString("nil")
	case error:
		fmt.Fprintf(b, "error(%s)", x.Error())
	case string:
		fmt.Fprintf(b, "%q", x)
	case int, int8, int16, int32, int64, uint, uint8, uint16, uint32, uint64, uintptr, bool, float32, float64, complex64, complex128:
		fmt.Fprintf(b, "%v", x)
	default:
		rv := reflect.ValueOf(v)
		switch rv.Kind() {
		case reflect.Ptr, reflect.Chan, reflect.Func, reflect.UnsafePointer:
			if rv.IsNil() {
				fmt.Fprintf(b, "%s(nil)", rv.Kind())
			} else {
				fmt.Fprintf(b, "%s(non-nil)", rv.Kind())
			}
		default:
			// %v on structs/slices of basic values; type name by Kind only: interpreted and
			// compiled named types print differently by design
			fmt.Fprintf(b, "%v", v)
		}
	}
}

// Ev records an observation.
//
//go:norace
func Ev(tag string, vals ...interface{}) {
	var b strings.Builder
	b.WriteString(tag)
	for _, v := range vals {
		b.WriteByte(' ')
		fmtVal(&b, v)
	}
	c := Cur
	if c.S != nil {
		c.S.Ev(b.String())
		return
	}
	c.Log = append(c.Log, b.String())
}

// Y is an explicit yield point of a template.
//
//go:norace
func Y() {
	if s := Cur.S; s != nil {
		s.Yield(sim.SiteY, true)
	}
}

// Pre declares the communication the task is about to perform and yields.
// Post records its result. (channel reference model, see sim/chanmodel.go)
//
//go:norace
func opText(kind, op string, args []interface{}) string {
	var b strings.Builder
	b.WriteString(kind)
	b.WriteString(op)
	for _, a := range args {
		b.WriteByte(' ')
		if s, ok := a.(string); ok {
			b.WriteString(s) // bare: the channel model parses these
		} else {
			fmtVal(&b, a)
		}
	}
	return b.String()
}

//go:norace
func rawEv(text string) {
	c := Cur
	if c.S != nil {
		c.S.Ev(text)
		return
	}
	c.Log = append(c.Log, text)
}

//go:norace
func Pre(op string, args ...interface{}) {
	rawEv(opText("pre ", op, args))
	if s := Cur.S; s != nil {
		s.Yield(sim.SiteOp, true)
	}
}

//go:norace
func Post(op string, args ...interface{}) {
	rawEv(opText("post ", op, args))
}

// Spawn/Start/Exit register natively started goroutines as tasks. In the interpreted twin
// the go statement itself registers the task (hook H4), so these are no-ops there.
//
//go:norace
func Spawn() int {
	c := Cur
	if c.S == nil || c.Interp {
		return 0
	}
	return int(c.S.Spawn())
}

//go:norace
func Start(tok int) {
	c := Cur
	if c.S == nil || c.Interp {
		return
	}
	c.S.Start(uintptr(tok))
}

//go:norace
func Exit(tok int) {
	c := Cur
	if c.S == nil || c.Interp {
		return
	}
	c.S.Exit(uintptr(tok), nil)
}

// GoCall runs f on a new goroutine started by compiled code (a "foreign" goroutine for the
// interpreter when f is an interpreted closure). Under the simulator it is a registered task.
//
//go:norace
func GoCall(f func()) {
	c := Cur
	if c.S == nil {
		go f()
		return
	}
	c.S.Go(f)
}

// Par calls f(i) for i in [0,n) from n foreign goroutines and waits for all of them.
func Par(n int, f func(int)) {
	var wg sync.WaitGroup
	for i := 0; i < n; i++ {
		i := i
		wg.Add(1)
		GoCall(func() {
			f(i)
			wg.Done()
		})
	}
	wg.Wait()
}

// SprintStringer / SprintError format a value that compiled code holds as fmt.Stringer / error
// (the route "interpreted type used through a compiled interface by compiled code").
func SprintStringer(s fmt.Stringer) string {
	return fmt.Sprint(s) + "|" + fmt.Sprintf("%v/%s/%6v", s, s, s)
}

func SprintError(e error) string {
	return fmt.Sprint(e) + "|" + fmt.Sprintf("%v/%s", e, e) + "|" + e.Error()
}

// AfterFunc is time.AfterFunc called by compiled code with an (interpreted) callback; the
// callback runs on a goroutine created by the runtime's timer machinery.
func AfterFunc(d time.Duration, f func()) {
	time.AfterFunc(d, func() {
		sim.ForeignStart()
		defer sim.ForeignExit()
		f()
	})
}

// Lock acquires mu without ever blocking on it (sync.Mutex is not durably blocking
// under synctest): TryLock, else yield as "waiting for lock" and retry.
//
//go:norace
func Lock(mu *sync.Mutex) {
	for !mu.TryLock() {
		if s := Cur.S; s != nil {
			s.LockWait(mu)
		}
	}
}

func Unlock(mu *sync.Mutex) { mu.Unlock() }

// Mutex is a sync.Locker with the same never-blocking Lock (usable with sync.NewCond).
type Mutex struct{ mu sync.Mutex }

func NewMutex() *Mutex { return &Mutex{} }

// Lock always parks first: a goroutine woken by Cond.Signal runs beside the task the
// scheduler resumed, and who wins the mutex must be the scheduler's decision, not a real race.
//
//go:norace
func (m *Mutex) Lock() {
	if s := Cur.S; s != nil {
		s.LockWait(&m.mu)
	}
	Lock(&m.mu)
}
func (m *Mutex) Unlock() { m.mu.Unlock() }

// RWMutex is a readers/writer lock whose waiters park in the scheduler. Its state is
// guarded by an internal mutex held for a few instructions only (never across a park), which
// also gives the race detector the release/acquire edges of a real sync.RWMutex.
type RWMutex struct {
	mu sync.Mutex
	st sim.RWState
}

func NewRWMutex() *RWMutex { return &RWMutex{} }

func (m *RWMutex) try(reader bool) bool {
	m.mu.Lock()
	ok := !m.st.Writer && (reader || m.st.Readers == 0)
	if ok {
		if reader {
			m.st.Readers++
		} else {
			m.st.Writer = true
		}
	}
	m.mu.Unlock()
	return ok
}

func (m *RWMutex) acquire(reader bool) {
	for !m.try(reader) {
		if s := Cur.S; s != nil {
			s.RWLockWait(&m.st, reader)
		} else {
			runtime.Gosched()
		}
	}
}

func (m *RWMutex) Lock()  { m.acquire(false) }
func (m *RWMutex) RLock() { m.acquire(true) }

func (m *RWMutex) Unlock() {
	m.mu.Lock()
	if !m.st.Writer {
		m.mu.Unlock()
		panic("hook.RWMutex: Unlock of unlocked lock")
	}
	m.st.Writer = false
	m.mu.Unlock()
}

func (m *RWMutex) RUnlock() {
	m.mu.Lock()
	if m.st.Readers <= 0 {
		m.mu.Unlock()
		panic("hook.RWMutex: RUnlock of unlocked lock")
	}
	m.st.Readers--
	m.mu.Unlock()
}

// Pair is a compiled function with two results and a fault point inside.
func Pair(i int) (int, int) {
	Fault("pair")
	return i, i + 1
}

// Try is a compiled function that calls f and contains its panic, as test runners, HTTP
// servers and the like do.
func Try(f func()) (rec interface{}) {
	defer func() {
		rec = recover()
	}()
	f()
	return nil
}

// Rec3 is a compiled function of three parameters and no result (a shape of its own in the
// interpreter's call compiler): it logs what it receives.
func Rec3(a int, b string, c int) {
	Ev("rec3", a, b, c)
}

// Fault is a named fault point inside compiled code.
func Fault(site string) {
	c := Cur
	c.NFault++
	if c.FaultFn != nil {
		c.FaultFn(site)
	}
}

func init() {
	imports.Packages["verif/hook"] = imports.Package{
		Name: "hook",
		Binds: map[string]reflect.Value{
			"Choose":         reflect.ValueOf(Choose),
			"Ev":             reflect.ValueOf(Ev),
			"Y":              reflect.ValueOf(Y),
			"Pre":            reflect.ValueOf(Pre),
			"Post":           reflect.ValueOf(Post),
			"Spawn":          reflect.ValueOf(Spawn),
			"Start":          reflect.ValueOf(Start),
			"Exit":           reflect.ValueOf(Exit),
			"GoCall":         reflect.ValueOf(GoCall),
			"Par":            reflect.ValueOf(Par),
			"SprintStringer": reflect.ValueOf(SprintStringer),
			"SprintError":    reflect.ValueOf(SprintError),
			"AfterFunc":      reflect.ValueOf(AfterFunc),
			"Lock":           reflect.ValueOf(Lock),
			"Unlock":         reflect.ValueOf(Unlock),
			"Fault":          reflect.ValueOf(Fault),
			"NewMutex":       reflect.ValueOf(NewMutex),
			"Rec3":           reflect.ValueOf(Rec3),
			"Try":            reflect.ValueOf(Try),
			"Pair":           reflect.ValueOf(Pair),
			"NewRWMutex":     reflect.ValueOf(NewRWMutex),
		},
		Types: map[string]reflect.Type{
			"Mutex":   reflect.TypeOf((*Mutex)(nil)).Elem(),
			"RWMutex": reflect.TypeOf((*RWMutex)(nil)).Elem(),
		},
	}
}
