package sim

import (
	"fmt"
	"strings"
	"testing"
	"testing/synctest"
)

// RunBubble runs f as the root goroutine of a fresh synctest bubble (fake clock, exact
// quiescence detection). It returns leaked=true if goroutines of the bubble were still
// blocked when f returned (a deadlocked simulated program): they stay blocked forever,
// which is harmless for a bounded worker process.
//
// synctest.Test is called on a helper goroutine: when the race detector reported something
// during the bubble, the testing package calls t.FailNow (runtime.Goexit) on the goroutine
// that called synctest.Test, which must not be the driver's.
func RunBubble(t *testing.T, f func()) (leaked bool) {
	done := make(chan interface{}, 1)
	go func() {
		var pv interface{}
		defer func() { done <- pv }()
		defer func() {
			if r := recover(); r != nil {
				if strings.Contains(fmt.Sprint(r), "deadlock:") {
					leaked = true
					return
				}
				pv = r
			}
		}()
		synctest.Test(t, func(*testing.T) { f() })
	}()
	if pv := <-done; pv != nil {
		panic(pv)
	}
	return leaked
}
