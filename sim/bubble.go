package sim

import (
	"fmt"
	"strings"
	"testing"
	"testing/synctest"
)

// RunBubble runs f as the root goroutine of a fresh synctest bubble (fake clock, exact
// quiescence detection). It returns leaked=true if goroutines of the bubble were still
// blocked when f returned (a deadlocked simulated program): they stay blocked forever,
// which is harmless for a bounded worker process.
func RunBubble(t *testing.T, f func()) (leaked bool) {
	defer func() {
		if r := recover(); r != nil {
			if strings.Contains(fmt.Sprint(r), "deadlock:") {
				leaked = true
				return
			}
			panic(r)
		}
	}()
	synctest.Test(t, func(*testing.T) { f() })
	return false
}
