//go:build race

package sim

import (
	"runtime"
	"unsafe"
)

// RaceEnabled reports whether this binary was built with -race.
const RaceEnabled = true

// raceOff/raceOn bracket every harness handshake so that the synchronisation the
// *simulator* performs (park/release channels, synctest.Wait, harness locks) adds no
// happens-before edge for ThreadSanitizer: it then sees exactly the synchronisation the
// program and the interpreter perform.
//
//go:norace
func raceOff() { runtime.RaceDisable() }

//go:norace
func raceOn() { runtime.RaceEnable() }

// RaceOff / RaceOn are exported for harness code outside this package (monitors).
//
//go:norace
func RaceOff() { runtime.RaceDisable() }

//go:norace
func RaceOn() { runtime.RaceEnable() }

var gRecycle [256]byte

// raceGStart / raceGExit tell ThreadSanitizer what is physically true but invisible to it:
// a goroutine that reuses the g (hence the identity) of an exited goroutine starts after
// that goroutine's exit. Only exit -> later start is ordered; two live goroutines are
// never ordered by this.
//
//go:norace
func raceGStart(g uintptr) { runtime.RaceAcquire(unsafe.Pointer(&gRecycle[(g>>7)&255])) }

//go:norace
func raceGExit(g uintptr) { runtime.RaceReleaseMerge(unsafe.Pointer(&gRecycle[(g>>7)&255])) }
