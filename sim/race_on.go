//go:build race

package sim

import "runtime"

// RaceEnabled reports whether this binary was built with -race.
const RaceEnabled = true

// raceOff/raceOn bracket every harness handshake so that the synchronisation the
// *simulator* performs (park/release channels, synctest.Wait, harness locks) adds no
// happens-before edge for ThreadSanitizer: it then sees exactly the synchronisation the
// program and the interpreter perform.
//
//go:norace
func raceOff() { runtime.RaceDisable() }

//go:norace
func raceOn() { runtime.RaceEnable() }
