//go:build !race

package sim

const RaceEnabled = false

func raceOff() {}
func raceOn()  {}
