//go:build !race

package sim

const RaceEnabled = false

func raceOff() {}
func raceOn()  {}

func RaceOff() {}
func RaceOn()  {}

func raceGStart(g uintptr) {}
func raceGExit(g uintptr)  {}
