package sim

import (
	"fmt"
	"strconv"
	"strings"
)

// Channel reference model.
//
// A recorded history is replayed on a small sequential model of Go channels (FIFO buffers,
// rendezvous, close semantics, ok flags, select = "any ready case, else default, else block
// on all"). The history is totally ordered by the scheduler's step numbers: at step s exactly
// one task is released from the yield it took in hook.Pre, performs the one communication it
// declared there, and every completion observed at step s (its own and those of tasks that
// were blocked in a channel operation) must be explained by that single operation.
// Where Go leaves the outcome open (several ready select cases, several blocked receivers)
// the model accepts any admissible outcome and follows the observed one.
//
// Event syntax (written by hook.Pre/hook.Post/hook.Ev):
//
//	chan <cid> <cap> <zero>          channel creation (zero = text of the element zero value)
//	pre send <cid> <v>   | post send <cid>
//	pre recv <cid>       | post recv <cid> <v> <ok>
//	pre close <cid>      | post close <cid>
//	pre sel <case>...    | post sel <idx> [<v> <ok>]
//	     case := r <cid> | s <cid> <v> | d          (cid -1 = nil channel)

type ChanHistory struct {
	Released []string            // Released[i] = task released at step i+1
	Logs     map[string][]string // task -> "step|text" events in program order
	Blocked  map[string]bool     // tasks blocked (not parked, not done) at the end
}

type selCase struct {
	kind string // r s d
	cid  int
	val  string
}

type pendOp struct {
	task  string
	kind  string // send recv close sel
	cid   int
	val   string
	cases []selCase
	dflt  int // index of default case or -1
}

type waiter struct {
	op      *pendOp
	caseIdx int // -1 for a plain op
}

type mchan struct {
	cap    int
	zero   string
	buf    []string
	closed bool
	recvq  []*waiter
	sendq  []*waiter
}

type mEvent struct {
	step int
	f    []string
	raw  string
}

type chanModel struct {
	chans   map[int]*mchan
	logs    map[string][]mEvent
	cur     map[string]int     // cursor per task
	pending map[string]*pendOp // declared, not yet performed
	blocked map[string]*pendOp // performed, blocked in the model
	Stats   struct{ Ops, MultiReady, Blocked, Woken, DefaultTaken, ClosedRecv int }
}

type ModelReject struct {
	Key    string
	Detail string
}

func (m *ModelReject) Error() string { return m.Key + ": " + m.Detail }

func parseLogs(logs map[string][]string) map[string][]mEvent {
	out := map[string][]mEvent{}
	for task, l := range logs {
		for _, e := range l {
			i := strings.IndexByte(e, '|')
			if i < 0 {
				panic(HarnessFault{"event without step stamp: " + e})
			}
			st, err := strconv.Atoi(e[:i])
			if err != nil {
				panic(HarnessFault{"bad step stamp: " + e})
			}
			out[task] = append(out[task], mEvent{st, strings.Fields(e[i+1:]), e})
		}
	}
	return out
}

func atoi(s string) int {
	v, err := strconv.Atoi(s)
	if err != nil {
		panic(HarnessFault{"bad integer in event: " + s})
	}
	return v
}

func parsePre(task string, f []string) *pendOp {
	// f[0]="pre"
	op := &pendOp{task: task, kind: f[1], dflt: -1}
	switch f[1] {
	case "send":
		op.cid, op.val = atoi(f[2]), f[3]
	case "recv", "close":
		op.cid = atoi(f[2])
	case "sel":
		for i := 2; i < len(f); {
			switch f[i] {
			case "r":
				op.cases = append(op.cases, selCase{"r", atoi(f[i+1]), ""})
				i += 2
			case "s":
				op.cases = append(op.cases, selCase{"s", atoi(f[i+1]), f[i+2]})
				i += 3
			case "d":
				op.dflt = len(op.cases)
				op.cases = append(op.cases, selCase{"d", -1, ""})
				i++
			default:
				panic(HarnessFault{"bad select case in event: " + strings.Join(f, " ")})
			}
		}
	default:
		panic(HarnessFault{"unknown op in event: " + strings.Join(f, " ")})
	}
	return op
}

// CheckChanHistory replays h on the model. It returns nil if the history is admissible.
func CheckChanHistory(h *ChanHistory) (rej *ModelReject, stats map[string]int) {
	m := &chanModel{chans: map[int]*mchan{}, logs: parseLogs(h.Logs), cur: map[string]int{},
		pending: map[string]*pendOp{}, blocked: map[string]*pendOp{}}
	defer func() {
		stats = map[string]int{"ops": m.Stats.Ops, "select_multi_ready": m.Stats.MultiReady, "blocked": m.Stats.Blocked,
			"woken": m.Stats.Woken, "default_taken": m.Stats.DefaultTaken, "recv_on_closed": m.Stats.ClosedRecv}
		if r := recover(); r != nil {
			if mr, ok := r.(*ModelReject); ok {
				rej = mr
				return
			}
			panic(r)
		}
	}()
	m.sweep(0)
	for i, task := range h.Released {
		step := i + 1
		m.step(step, task)
		m.sweep(step)
	}
	// everything must have been consumed
	for task, l := range m.logs {
		if m.cur[task] < len(l) {
			m.reject("unexplained-event", "task %s: event %q was never explained by the model", task, l[m.cur[task]].raw)
		}
	}
	for task := range m.blocked {
		if !h.Blocked[task] {
			m.reject("not-blocked", "task %s must be blocked in %s but is not", task, m.blocked[task].kind)
		}
	}
	return nil, nil
}

func (m *chanModel) reject(key, format string, args ...interface{}) {
	panic(&ModelReject{key, fmt.Sprintf(format, args...)})
}

// next returns the next unconsumed event of task (nil if none)
func (m *chanModel) next(task string) *mEvent {
	l := m.logs[task]
	if c := m.cur[task]; c < len(l) {
		return &l[c]
	}
	return nil
}

// sweep consumes the non-completion events (chan declarations, pre declarations, other
// observations) every task logged up to and including step.
func (m *chanModel) sweep(step int) {
	for task := range m.logs {
		for {
			e := m.next(task)
			if e == nil || e.step > step {
				break
			}
			if len(e.f) == 0 {
				m.cur[task]++
				continue
			}
			switch e.f[0] {
			case "chan":
				m.chans[atoi(e.f[1])] = &mchan{cap: atoi(e.f[2]), zero: e.f[3]}
			case "pre":
				if m.pending[task] != nil || m.blocked[task] != nil {
					m.reject("overlapping-op", "task %s declared %q while another operation is outstanding", task, e.raw)
				}
				m.pending[task] = parsePre(task, e.f)
			case "post":
				m.reject("unexpected-completion", "task %s: %q at step %d is not explained by the operation performed at that step", task, e.raw, e.step)
			}
			m.cur[task]++
		}
	}
}

func (m *chanModel) ch(cid int) *mchan {
	c := m.chans[cid]
	if c == nil {
		panic(HarnessFault{fmt.Sprintf("operation on undeclared channel %d", cid)})
	}
	return c
}

// expectPost consumes the completion event of task at step and checks it.
func (m *chanModel) expectPost(task string, step int, want []string, what string) {
	e := m.next(task)
	if e == nil || e.step != step || len(e.f) == 0 || e.f[0] != "post" {
		got := "nothing"
		if e != nil {
			got = fmt.Sprintf("%q", e.raw)
		}
		m.reject("missing-completion:"+what, "task %s must complete %s at step %d with %v, observed %s", task, what, step, want, got)
	}
	got := e.f[1:]
	match := len(got) == len(want)
	for i := 0; match && i < len(want); i++ {
		// "_" = the template did not bind this result
		if got[i] != want[i] && got[i] != "_" {
			match = false
		}
	}
	if !match {
		m.reject("wrong-result:"+what, "task %s: %s must give %v, observed %q", task, what, want, e.raw)
	}
	m.cur[task]++
}

// completedAt reports whether task logged a completion at step (without consuming it)
func (m *chanModel) completedAt(task string, step int) bool {
	e := m.next(task)
	return e != nil && e.step == step && len(e.f) > 0 && e.f[0] == "post"
}

func (m *chanModel) removeWaiters(op *pendOp) {
	for _, c := range m.chans {
		c.recvq = filterW(c.recvq, op)
		c.sendq = filterW(c.sendq, op)
	}
	delete(m.blocked, op.task)
}

func filterW(q []*waiter, op *pendOp) []*waiter {
	out := q[:0]
	for _, w := range q {
		if w.op != op {
			out = append(out, w)
		}
	}
	return out
}

// wake completes blocked waiter w at step with a received value (recv) or nothing (send)
func (m *chanModel) wake(w *waiter, step int, recv bool, v string, ok bool) {
	var want []string
	op := w.op
	if w.caseIdx >= 0 {
		want = []string{"sel", strconv.Itoa(w.caseIdx)}
		if recv {
			want = append(want, v, strconv.FormatBool(ok))
		}
	} else if recv {
		want = []string{"recv", strconv.Itoa(op.cid), v, strconv.FormatBool(ok)}
	} else {
		want = []string{"send", strconv.Itoa(op.cid)}
	}
	m.removeWaiters(op)
	m.Stats.Woken++
	m.expectPost(op.task, step, want, "wakeup-"+op.kind)
}

// pickWoken chooses, among the waiters in q, the one whose task completed at step.
func (m *chanModel) pickWoken(q []*waiter, step int, what string) *waiter {
	var found *waiter
	for _, w := range q {
		if m.completedAt(w.op.task, step) {
			if found != nil && found.op != w.op {
				m.reject("double-wakeup", "%s at step %d woke more than one blocked task (%s and %s)", what, step, found.op.task, w.op.task)
			}
			if found == nil {
				found = w
			}
		}
	}
	if found == nil {
		m.reject("lost-wakeup", "%s at step %d must wake one of %d blocked tasks, none completed", what, step, len(q))
	}
	return found
}

// canSend / canRecv: would the operation complete immediately?
func (c *mchan) canSend() bool { return c.closed || len(c.recvq) > 0 || len(c.buf) < c.cap }
func (c *mchan) canRecv() bool { return len(c.buf) > 0 || len(c.sendq) > 0 || c.closed }

// doSend performs a ready send. Returns nothing; wakes a receiver if there is one.
func (m *chanModel) doSend(c *mchan, cid int, v string, step int) {
	if c.closed {
		panic(HarnessFault{fmt.Sprintf("template sends on closed channel %d", cid)})
	}
	if len(c.recvq) > 0 {
		w := m.pickWoken(c.recvq, step, fmt.Sprintf("send on channel %d", cid))
		m.wake(w, step, true, v, true)
		return
	}
	c.buf = append(c.buf, v)
}

// doRecv performs a ready receive and returns the value and ok flag.
func (m *chanModel) doRecv(c *mchan, cid int, step int) (string, bool) {
	if len(c.buf) > 0 {
		v := c.buf[0]
		c.buf = append([]string(nil), c.buf[1:]...)
		if len(c.sendq) > 0 {
			w := m.pickWoken(c.sendq, step, fmt.Sprintf("receive on full channel %d", cid))
			sv := w.op.val
			if w.caseIdx >= 0 {
				sv = w.op.cases[w.caseIdx].val
			}
			c.buf = append(c.buf, sv)
			m.wake(w, step, false, "", false)
		}
		return v, true
	}
	if len(c.sendq) > 0 {
		w := m.pickWoken(c.sendq, step, fmt.Sprintf("receive on channel %d", cid))
		sv := w.op.val
		if w.caseIdx >= 0 {
			sv = w.op.cases[w.caseIdx].val
		}
		m.wake(w, step, false, "", false)
		return sv, true
	}
	if c.closed {
		m.Stats.ClosedRecv++
		return c.zero, false
	}
	panic(HarnessFault{"doRecv on a channel that is not ready"})
}

func (m *chanModel) block(op *pendOp, step int) {
	if m.completedAt(op.task, step) {
		e := m.next(op.task)
		m.reject("impossible-completion:"+op.kind, "task %s completed %q at step %d but the operation cannot proceed in the model state", op.task, e.raw, step)
	}
	m.blocked[op.task] = op
	m.Stats.Blocked++
	switch op.kind {
	case "send":
		c := m.ch(op.cid)
		c.sendq = append(c.sendq, &waiter{op, -1})
	case "recv":
		c := m.ch(op.cid)
		c.recvq = append(c.recvq, &waiter{op, -1})
	case "sel":
		for i, cs := range op.cases {
			if cs.cid < 0 {
				continue
			}
			c := m.ch(cs.cid)
			if cs.kind == "r" {
				c.recvq = append(c.recvq, &waiter{op, i})
			} else if cs.kind == "s" {
				c.sendq = append(c.sendq, &waiter{op, i})
			}
		}
	}
}

// step: task was released at step and performs its pending operation (if any)
func (m *chanModel) step(step int, task string) {
	op := m.pending[task]
	if op == nil {
		return
	}
	delete(m.pending, task)
	m.Stats.Ops++
	switch op.kind {
	case "send":
		c := m.ch(op.cid)
		if !c.canSend() {
			m.block(op, step)
			return
		}
		m.doSend(c, op.cid, op.val, step)
		m.expectPost(task, step, []string{"send", strconv.Itoa(op.cid)}, "send")
	case "recv":
		c := m.ch(op.cid)
		if !c.canRecv() {
			m.block(op, step)
			return
		}
		v, ok := m.doRecv(c, op.cid, step)
		m.expectPost(task, step, []string{"recv", strconv.Itoa(op.cid), v, strconv.FormatBool(ok)}, "recv")
	case "close":
		c := m.ch(op.cid)
		if c.closed {
			panic(HarnessFault{"template closes a closed channel"})
		}
		if len(c.sendq) > 0 {
			panic(HarnessFault{"template closes a channel with blocked senders"})
		}
		c.closed = true
		q := append([]*waiter(nil), c.recvq...)
		done := map[*pendOp]bool{}
		for _, w := range q {
			if !done[w.op] {
				done[w.op] = true
				m.Stats.ClosedRecv++
				m.wake(w, step, true, c.zero, false)
			}
		}
		m.expectPost(task, step, []string{"close", strconv.Itoa(op.cid)}, "close")
	case "sel":
		var ready []int
		for i, cs := range op.cases {
			if cs.cid < 0 {
				continue
			}
			c := m.ch(cs.cid)
			if (cs.kind == "r" && c.canRecv()) || (cs.kind == "s" && c.canSend()) {
				ready = append(ready, i)
			}
		}
		if len(ready) == 0 {
			if op.dflt >= 0 {
				m.Stats.DefaultTaken++
				m.expectPost(task, step, []string{"sel", strconv.Itoa(op.dflt)}, "select-default")
				return
			}
			m.block(op, step)
			return
		}
		if len(ready) > 1 {
			m.Stats.MultiReady++
		}
		// follow the observed case, which must be a ready one
		e := m.next(task)
		if e == nil || e.step != step || len(e.f) < 3 || e.f[0] != "post" || e.f[1] != "sel" {
			got := "nothing"
			if e != nil {
				got = fmt.Sprintf("%q", e.raw)
			}
			m.reject("missing-completion:select", "task %s: select with ready cases %v must complete at step %d, observed %s", task, ready, step, got)
		}
		idx := atoi(e.f[2])
		isReady := false
		for _, r := range ready {
			if r == idx {
				isReady = true
			}
		}
		if !isReady {
			m.reject("select-not-ready", "task %s: select took case %d (%q) but only cases %v are ready", task, idx, e.raw, ready)
		}
		cs := op.cases[idx]
		c := m.ch(cs.cid)
		if cs.kind == "s" {
			m.doSend(c, cs.cid, cs.val, step)
			m.expectPost(task, step, []string{"sel", strconv.Itoa(idx)}, "select-send")
		} else {
			v, ok := m.doRecv(c, cs.cid, step)
			m.expectPost(task, step, []string{"sel", strconv.Itoa(idx), v, strconv.FormatBool(ok)}, "select-recv")
		}
	}
}
