// Package sim is the deterministic simulator: one integer decides everything.
package sim

import (
	"fmt"
	"sort"
	"strings"
)

// Mix derives a sub-seed (splitmix64 finaliser over a simple combination).
func Mix(a uint64, bs ...uint64) uint64 {
	x := a
	for _, b := range bs {
		x = splitmix(x ^ (b+0x9e3779b97f4a7c15)*0xbf58476d1ce4e5b9)
	}
	return splitmix(x)
}

func splitmix(x uint64) uint64 {
	x += 0x9e3779b97f4a7c15
	x = (x ^ (x >> 30)) * 0xbf58476d1ce4e5b9
	x = (x ^ (x >> 27)) * 0x94d049bb133111eb
	return x ^ (x >> 31)
}

func HashString(s string) uint64 {
	h := uint64(14695981039346656037)
	for i := 0; i < len(s); i++ {
		h ^= uint64(s[i])
		h *= 1099511628211
	}
	return h
}

// Stream is one named sequence of choices. Each simulated task owns one stream (so that
// tasks that briefly overlap never contend for draws), the scheduler owns "sched", the
// workload generator owns "gen".
//
// explore mode: draws come from a PRNG seeded from (run seed, stream name) and are recorded.
// replay mode : draws are served from the recorded list; past its end every draw is 0,
//
//	the "simplest" choice (keep running, no fault, smallest size).
type Stream struct {
	Name   string
	replay bool
	state  uint64
	in     []uint32
	pos    int
	forced []uint32 // explore mode: served before the PRNG (enumeration index etc.)
	Out    []uint32 // every value returned, in order
}

// Draw returns k with 0 <= k < n. n <= 1 returns 0 without consuming a choice.
//
//go:norace
func (s *Stream) Draw(n int) int {
	if n <= 1 {
		return 0
	}
	// raw values are recorded (k = raw % n), so that two executions driven by the same
	// list (native twin / interpreter) stay prefix-consistent even where n differs.
	var raw uint32
	if s.replay {
		if s.pos < len(s.in) {
			raw = s.in[s.pos]
		}
		s.pos++
	} else if s.pos < len(s.forced) {
		raw = s.forced[s.pos]
		s.pos++
	} else {
		s.state = splitmix(s.state)
		raw = uint32(s.state >> 33)
	}
	s.Out = append(s.Out, raw)
	return int(raw % uint32(n))
}

// Chance is true with probability num/den in explore mode; a 0 choice means false.
//
//go:norace
func (s *Stream) Chance(num, den int) bool {
	if num <= 0 {
		return false
	}
	return s.Draw(den) >= den-num
}

// Choices is the single source of nondeterminism of a run.
type Choices struct {
	Seed    uint64
	replay  bool
	forks   []*Choices
	forced  map[string][]uint32
	in      map[string][]uint32
	streams [64]*Stream // fixed array: looked up by linear scan (no map: see race notes)
	n       int
}

func NewExplore(seed uint64) *Choices { return &Choices{Seed: seed} }

func NewReplay(seed uint64, in map[string][]uint32) *Choices {
	return &Choices{Seed: seed, replay: true, in: in}
}

func (c *Choices) IsReplay() bool { return c.replay }

// Force makes the named stream serve vals first (explore mode only; in replay mode the
// recorded list already contains them).
func (c *Choices) Force(name string, vals []uint32) {
	if !c.replay {
		if c.forced == nil {
			c.forced = map[string][]uint32{}
		}
		c.forced[name] = vals
		c.Stream(name).forced = vals
	}
}

// Fork returns a second choice source that serves exactly the same values (same seed,
// same recorded lists) from the start: the native twin and the interpreter each consume
// one, so both are driven by one list. Trace() merges them.
func (c *Choices) Fork() *Choices {
	f := &Choices{Seed: c.Seed, replay: c.replay, in: c.in, forced: c.forced}
	c.forks = append(c.forks, f)
	return f
}

// Stream returns (creating if needed) the stream called name.
// Must only be called while no other goroutine calls it (scheduler at quiescence,
// or a task for its own name created before it started: see Sched).
//
//go:norace
func (c *Choices) Stream(name string) *Stream {
	for i := 0; i < c.n; i++ {
		if c.streams[i].Name == name {
			return c.streams[i]
		}
	}
	if c.n == len(c.streams) {
		panic(HarnessFault{"too many choice streams"})
	}
	s := &Stream{Name: name, replay: c.replay}
	if c.replay {
		s.in = c.in[name]
	} else {
		s.state = Mix(c.Seed, HashString(name))
		s.forced = c.forced[name]
	}
	c.streams[c.n] = s
	c.n++
	return s
}

// Trace returns everything drawn so far, by stream name.
func (c *Choices) Trace() map[string][]uint32 {
	m := make(map[string][]uint32, c.n)
	for _, x := range append([]*Choices{c}, c.forks...) {
		for i := 0; i < x.n; i++ {
			s := x.streams[i]
			if len(s.Out) > len(m[s.Name]) {
				m[s.Name] = append([]uint32(nil), s.Out...)
			}
		}
	}
	return m
}

// TraceLen is the total number of choices drawn.
func (c *Choices) TraceLen() int {
	n := 0
	for _, l := range c.Trace() {
		n += len(l)
	}
	return n
}

func TraceString(m map[string][]uint32) string {
	names := make([]string, 0, len(m))
	for k := range m {
		names = append(names, k)
	}
	sort.Strings(names)
	var b strings.Builder
	for _, k := range names {
		fmt.Fprintf(&b, "%s=%v;", k, m[k])
	}
	return b.String()
}

// HarnessFault is panicked by the simulator when the harness itself is wrong
// (never reported as a violation: the check exits 2).
type HarnessFault struct{ Msg string }

func (h HarnessFault) Error() string { return "harness fault: " + h.Msg }
