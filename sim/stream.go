package sim

import (
	"errors"
	"io"
)

// ErrInjected is the non-EOF read error the stream simulator injects.
var ErrInjected = errors.New("injected read error")

// StreamFaults describes how a byte stream is delivered.
type StreamFaults struct {
	MaxFrag   int  // io.Reader: fragments of 1..MaxFrag bytes
	ZeroReads bool // io.Reader: occasional (0, nil) reads
	CutAt     int  // EOF after this many bytes (-1: deliver everything)
	ErrAt     int  // a non-EOF error once after this many bytes (-1: none)
	ErrResume bool // after the injected error more data follows (else EOF)
	Lines     int  // Readline: 1..Lines whole lines per call; 0 = whole buffer at once
}

type StreamStats struct {
	Reads, ZeroReads, Errors, EOFs int
	Delivered                      int
}

// FaultyReader is a simulated io.Reader.
type FaultyReader struct {
	Data  []byte
	F     StreamFaults
	Ch    *Stream
	pos   int
	erred bool
	Stats StreamStats
}

func (r *FaultyReader) end() int {
	if r.F.CutAt >= 0 && r.F.CutAt < len(r.Data) {
		return r.F.CutAt
	}
	return len(r.Data)
}

func (r *FaultyReader) Read(p []byte) (int, error) {
	r.Stats.Reads++
	if len(p) == 0 {
		return 0, nil
	}
	if r.F.ErrAt >= 0 && !r.erred && r.pos >= r.F.ErrAt {
		r.erred = true
		r.Stats.Errors++
		return 0, ErrInjected
	}
	if r.erred && !r.F.ErrResume {
		r.Stats.EOFs++
		return 0, io.EOF
	}
	end := r.end()
	if r.pos >= end {
		r.Stats.EOFs++
		return 0, io.EOF
	}
	if r.F.ZeroReads && r.Ch.Draw(8) == 7 {
		r.Stats.ZeroReads++
		return 0, nil
	}
	n := 1
	if r.F.MaxFrag > 1 {
		n = 1 + r.Ch.Draw(r.F.MaxFrag)
	}
	if n > len(p) {
		n = len(p)
	}
	if r.pos+n > end {
		n = end - r.pos
	}
	if r.F.ErrAt >= 0 && !r.erred && r.pos < r.F.ErrAt && r.pos+n > r.F.ErrAt {
		n = r.F.ErrAt - r.pos
	}
	copy(p, r.Data[r.pos:r.pos+n])
	r.pos += n
	r.Stats.Delivered += n
	return n, nil
}

// Delivered returns how many bytes were handed out so far.
func (r *FaultyReader) Pos() int { return r.pos }

// LineReader is a simulated line source with the signature of gomacro's base.Readline:
// each call returns 1..Lines whole lines (or the whole buffer), the final line possibly
// without newline, with EOF / error placements as FaultyReader.
type LineReader struct {
	Data  []byte
	F     StreamFaults
	Ch    *Stream
	pos   int
	erred bool
	Stats StreamStats
}

func (r *LineReader) Read(prompt string) ([]byte, error) {
	r.Stats.Reads++
	end := len(r.Data)
	if r.F.CutAt >= 0 && r.F.CutAt < end {
		end = r.F.CutAt
	}
	if r.erred && !r.F.ErrResume {
		r.Stats.EOFs++
		return nil, io.EOF
	}
	if r.pos >= end {
		r.Stats.EOFs++
		return nil, io.EOF
	}
	want := r.F.Lines
	if want > 1 {
		want = 1 + r.Ch.Draw(want)
	}
	stop := r.pos
	lines := 0
	for stop < end {
		c := r.Data[stop]
		stop++
		if r.F.ErrAt >= 0 && !r.erred && stop >= r.F.ErrAt && r.pos < r.F.ErrAt {
			break
		}
		if c == '\n' {
			lines++
			if want != 0 && lines >= want {
				break
			}
		}
	}
	out := append([]byte(nil), r.Data[r.pos:stop]...)
	r.pos = stop
	r.Stats.Delivered += len(out)
	if r.F.ErrAt >= 0 && !r.erred && r.pos >= r.F.ErrAt {
		r.erred = true
		r.Stats.Errors++
		return out, ErrInjected
	}
	if r.pos >= end && (len(out) == 0 || out[len(out)-1] != '\n') {
		// like bufio.ReadBytes: the last unterminated line comes with io.EOF
		r.Stats.EOFs++
		return out, io.EOF
	}
	return out, nil
}

func (r *LineReader) Pos() int { return r.pos }
