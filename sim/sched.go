package sim

import (
	"fmt"
	"runtime"
	"strconv"
	"sync"
	"testing/synctest"
	"time"

	"github.com/cosmos72/gomacro/gls"
)

const MaxTasks = 24

type taskState int

const (
	tFree taskState = iota
	tStarting
	tRunning
	tParked
	tDone
)

// yield sites (used in schedule hashes and decision samples)
const (
	SiteStart   = 100 // first park of a task
	SiteY       = 101 // hook.Y(): explicit yield in a template
	SiteOp      = 102 // hook.Pre(): before a communication
	SiteStmt    = 103 // H1: before an interpreted statement
	SiteLock    = 104 // hook.Lock(): lock not available
	SiteProto   = 110 // H4: 110+site, registry protocol step
	SiteForeign = 120
)

// Killed is panicked inside a parked task when a run is torn down (step limit).
type Killed struct{}

type Task struct {
	Slot   int
	Name   string
	goid   uintptr
	state  taskState
	site   int
	wake   chan struct{}
	skip   int
	waitMu *sync.Mutex // parked in hook.Lock: eligible only while the mutex is free
	waitRW *RWState    // parked in hook.RWMutex: eligible only while the lock can be taken
	waitRd bool        // ... as a reader
	nchild int
	nyield int
	Gnum   uint64   // runtime goroutine number (parsed from runtime.Stack): independent identity
	Ident  uintptr  // simulated identity (C33 reuse-stress mode), 0 if none
	Log    []string // "step|event"
	Ch     *Stream
	Panic  string
	fn     func()
}

type SchedConfig struct {
	MaxSteps   int           // scheduler decisions per run
	MaxSimTime time.Duration // fake-clock budget
	QuantumMax int           // a released task skips up to QuantumMax-1 soft yields
	Bias       int           // extra weight for "keep running the current task"
	StmtYield  bool          // statement-level yields (H1) are yield points
	ProtoYield bool          // protocol yields (H4) are yield points
}

type Decision struct {
	Step   int
	Task   string
	Site   int
	Parked int
}

type Sched struct {
	Choices *Choices
	Cfg     SchedConfig
	sch     *Stream
	tasks   [MaxTasks]Task
	ntasks  int
	mu      sync.Mutex
	notify  chan struct{}
	Step    int
	last    *Task
	start   time.Time

	Outcome   string // completed | deadlock | steplimit
	SchedHash uint64
	Sample    []Decision
	Released  []string // Released[i] = task released at step i+1
	Switches  int
	MaxParked int
	SimTime   time.Duration
	EndState  []string // tasks not done when the run ended: "name:blocked" or "name:parked@site"
	// OnExit, if set, is called (on the exiting goroutine) when a task finishes
	OnExit func(t *Task)
	// ForeignLog collects events logged by goroutines that are not simulated tasks
	ForeignLog []string
}

// NewSched must be called inside the synctest bubble.
func NewSched(ch *Choices, cfg SchedConfig) *Sched {
	if cfg.MaxSteps == 0 {
		cfg.MaxSteps = 400
	}
	if cfg.MaxSimTime == 0 {
		cfg.MaxSimTime = 10 * time.Second
	}
	if cfg.QuantumMax < 1 {
		cfg.QuantumMax = 1
	}
	s := &Sched{Choices: ch, Cfg: cfg, sch: ch.Stream("sched"), notify: make(chan struct{}, 1), start: time.Now()}
	return s
}

//go:norace
func (s *Sched) cur() *Task {
	id := gls.GoID()
	n := s.ntasks
	for i := 0; i < n; i++ {
		t := &s.tasks[i]
		if t.goid == id && t.state != tDone && t.state != tFree {
			return t
		}
	}
	return nil
}

// Cur returns the simulated task running on the calling goroutine, or nil.
//
//go:norace
func (s *Sched) Cur() *Task { return s.cur() }

// CurName returns the name of the current task ("" if the caller is not a task).
//
//go:norace
func (s *Sched) CurName() string {
	if t := s.cur(); t != nil {
		return t.Name
	}
	return ""
}

// alloc reserves a slot for a child of parent (nil: root).
//
//go:norace
func (s *Sched) alloc(parent *Task, fn func()) *Task {
	// no library call that synchronises internally (fmt uses a sync.Pool) may run between
	// raceOff and raceOn: its happens-before edges would be lost and reported as races
	name := "m"
	if parent != nil {
		name = parent.Name + "." + strconv.Itoa(parent.nchild)
		parent.nchild++
	}
	wake := make(chan struct{}, 1)
	sname := "t:" + name
	raceOff()
	s.mu.Lock()
	ch := s.Choices.Stream(sname) // pure computation, no internal synchronisation
	if s.ntasks == MaxTasks {
		s.mu.Unlock()
		raceOn()
		panic(HarnessFault{"too many tasks"})
	}
	t := &s.tasks[s.ntasks]
	t.Slot = s.ntasks
	t.Name = name
	t.state = tStarting
	t.wake = wake
	t.fn = fn
	t.Ch = ch
	s.ntasks++
	s.mu.Unlock()
	raceOn()
	return t
}

// Spawn reserves a task slot on behalf of the calling task; the returned token is handed
// to Start by the new goroutine. (Used by the H4 go-statement hook and by hook.Spawn.)
//
//go:norace
func (s *Sched) Spawn() uintptr {
	p := s.cur()
	if p == nil {
		return 0
	}
	return uintptr(s.alloc(p, nil).Slot + 1)
}

// Start registers the calling goroutine as the task reserved by tok and parks it until
// the scheduler releases it.
//
//go:norace
func (s *Sched) Start(tok uintptr) {
	if tok == 0 {
		return
	}
	t := &s.tasks[tok-1]
	t.goid = gls.GoID()
	t.Gnum = Gnum()
	raceGStart(t.goid)
	s.park(t, SiteStart)
}

// Exit marks the task done. v is a recovered panic value (nil if none).
//
//go:norace
func (s *Sched) Exit(tok uintptr, v interface{}) {
	if tok == 0 {
		if v != nil {
			panic(v)
		}
		return
	}
	t := &s.tasks[tok-1]
	if v != nil {
		if _, ok := v.(Killed); !ok {
			t.Panic = fmt.Sprintf("%T:%v", v, v)
		}
	}
	if f := s.OnExit; f != nil {
		f(t)
	}
	raceGExit(t.goid)
	raceOff()
	t.goid = 0
	t.state = tDone
	select {
	case s.notify <- struct{}{}:
	default:
	}
	raceOn()
}

// Go starts fn as a new simulated task, child of the calling task (native twins and
// compiled helpers use this where interpreted code uses the go statement).
//
//go:norace
func (s *Sched) Go(fn func()) {
	p := s.cur()
	t := s.alloc(p, fn)
	go s.taskMain(t)
}

func (s *Sched) taskMain(t *Task) {
	tok := uintptr(t.Slot + 1)
	defer func() { s.Exit(tok, recover()) }()
	s.Start(tok)
	t.fn()
}

// Yield is a scheduling point. Soft yields can be skipped by the current quantum.
//
//go:norace
func (s *Sched) Yield(site int, hard bool) {
	t := s.cur()
	if t == nil {
		return
	}
	t.nyield++
	if !hard && t.skip > 0 {
		t.skip--
		return
	}
	s.park(t, site)
}

//go:norace
func (s *Sched) park(t *Task, site int) {
	t.site = site
	raceOff()
	t.state = tParked
	select {
	case s.notify <- struct{}{}:
	default:
	}
	<-t.wake
	raceOn()
}

// Ev appends an event to the calling task's log, stamped with the scheduler step.
//
//go:norace
func (s *Sched) Ev(ev string) {
	t := s.cur()
	if t == nil {
		raceOff()
		s.mu.Lock()
		s.ForeignLog = append(s.ForeignLog, ev)
		s.mu.Unlock()
		raceOn()
		return
	}
	t.Log = append(t.Log, fmt.Sprintf("%d|%s", s.Step, ev))
}

// Run executes main as task "m" and schedules until every task is done, the run
// deadlocks or a cap is hit. Must be called on the bubble's root goroutine.
//
//go:norace
func (s *Sched) Run(main func()) {
	t := s.alloc(nil, main)
	go s.taskMain(t)
	var parked [MaxTasks]*Task
	for {
		raceOff()
		synctest.Wait()
		select {
		case <-s.notify:
		default:
		}
		raceOn()
		np, alive, nwait := 0, 0, 0
		for i := 0; i < s.ntasks; i++ {
			t := &s.tasks[i]
			if t.state != tDone {
				alive++
			}
			if t.state == tParked {
				if mu := t.waitMu; mu != nil {
					// a lock waiter is runnable only if the lock is free right now
					raceOff()
					free := mu.TryLock()
					if free {
						mu.Unlock()
					}
					raceOn()
					if !free {
						nwait++
						continue
					}
				}
				if rw := t.waitRW; rw != nil {
					// plain reads, invisible to the race detector in this norace function;
					// every task is parked or durably blocked right now
					if rw.Writer || (!t.waitRd && rw.Readers != 0) {
						nwait++
						continue
					}
				}
				parked[np] = t
				np++
			}
		}
		if alive == 0 {
			s.Outcome = "completed"
			break
		}
		if s.Step >= s.Cfg.MaxSteps {
			s.Outcome = "steplimit"
			break
		}
		if np == 0 && nwait > 0 && alive == nwait {
			// every live task waits for a lock nobody will release
			s.Outcome = "deadlock"
			break
		}
		if np == 0 {
			remaining := s.Cfg.MaxSimTime - time.Since(s.start)
			if remaining <= 0 {
				s.Outcome = "deadlock"
				break
			}
			timedOut := false
			// NewTimer synchronises internally (sync.Once): keep it outside raceOff
			tm := time.NewTimer(remaining)
			raceOff()
			select {
			case <-s.notify:
				tm.Stop()
			case <-tm.C:
				timedOut = true
			}
			raceOn()
			if timedOut {
				s.Outcome = "deadlock"
				break
			}
			continue
		}
		if np > s.MaxParked {
			s.MaxParked = np
		}
		// order: the task that ran last first (choice 0 = no context switch), then by name
		sortTasks(parked[:np], s.last)
		k := s.sch.Draw(np + s.Cfg.Bias)
		if k >= np {
			k = 0
		}
		t := parked[k]
		q := 0
		if s.Cfg.QuantumMax > 1 {
			q = s.sch.Draw(s.Cfg.QuantumMax)
		}
		if t != s.last {
			s.Switches++
		}
		s.last = t
		s.Step++
		s.SchedHash = Mix(s.SchedHash, HashString(t.Name), uint64(t.site), uint64(q))
		s.Released = append(s.Released, t.Name)
		if len(s.Sample) < 48 {
			s.Sample = append(s.Sample, Decision{s.Step, t.Name, t.site, np})
		}
		t.skip = q
		t.state = tRunning
		raceOff()
		t.wake <- struct{}{}
		raceOn()
	}
	s.SimTime = time.Since(s.start)
	for _, t := range s.Tasks() {
		switch t.state {
		case tParked:
			s.EndState = append(s.EndState, fmt.Sprintf("%s:parked@%d", t.Name, t.site))
		case tDone:
		default:
			s.EndState = append(s.EndState, t.Name+":blocked")
		}
	}
	// tear down: nothing is killed. Tasks still parked or blocked in real operations stay
	// where they are for ever; the bubble then ends with the synctest deadlock panic, which
	// RunBubble recovers. (Killing a parked task would unwind through template code that
	// has no recover, natively.)
}

//go:norace
func taskLess(a, b, last *Task) bool {
	if (a == last) != (b == last) {
		return a == last
	}
	return a.Name < b.Name
}

// insertion sort, no closures (closures would be race-instrumented)
//
//go:norace
func sortTasks(ts []*Task, last *Task) {
	for i := 1; i < len(ts); i++ {
		for j := i; j > 0 && taskLess(ts[j], ts[j-1], last); j-- {
			ts[j], ts[j-1] = ts[j-1], ts[j]
		}
	}
}

// Tasks returns all tasks in name order (call after Run).
//
//go:norace
func (s *Sched) Tasks() []*Task {
	out := make([]*Task, 0, s.ntasks)
	for i := 0; i < s.ntasks; i++ {
		out = append(out, &s.tasks[i])
	}
	sortTasks(out, nil)
	return out
}

//go:norace
func (t *Task) Done() bool { return t.state == tDone }

//go:norace
func (t *Task) Yields() int { return t.nyield }

// Gnum returns the runtime's goroutine number of the caller, parsed from runtime.Stack:
// an identity that does not depend on the interpreter's own goroutine-identity code.
//
//go:norace
func Gnum() uint64 {
	var buf [64]byte
	n := runtime.Stack(buf[:], false)
	// "goroutine 123 [running]:"
	var v uint64
	for i := len("goroutine "); i < n && buf[i] >= '0' && buf[i] <= '9'; i++ {
		v = v*10 + uint64(buf[i]-'0')
	}
	return v
}

// TaskByGnum finds the live task running on goroutine number g.
//
//go:norace
func (s *Sched) TaskByGnum(g uint64) *Task {
	for i := 0; i < s.ntasks; i++ {
		t := &s.tasks[i]
		if t.Gnum == g && t.state != tDone && t.state != tFree {
			return t
		}
	}
	return nil
}

// Live calls f for every task that has not finished.
//
//go:norace
func (s *Sched) Live(f func(t *Task)) {
	for i := 0; i < s.ntasks; i++ {
		t := &s.tasks[i]
		if t.state != tDone && t.state != tFree {
			f(t)
		}
	}
}

//go:norace
func (t *Task) Goid() uintptr { return t.goid }

// ForeignStart / ForeignExit bracket a goroutine that is not a simulated task (a timer
// goroutine created by the runtime) for the g-recycling edge described in race_on.go.
//
// RaceIdentStart / RaceIdentExit: the same edge for simulated identities (reuse-stress mode).
//
//go:norace
func RaceIdentStart(id uintptr) { raceGStart(id << 7) }

//go:norace
func RaceIdentExit(id uintptr) { raceGExit(id << 7) }

//go:norace
func ForeignStart() { raceGStart(gls.GoID()) }

//go:norace
func ForeignExit() { raceGExit(gls.GoID()) }

// LockWait parks the calling task until the scheduler sees mu free and picks the task.
//
//go:norace
func (s *Sched) LockWait(mu *sync.Mutex) {
	t := s.cur()
	if t == nil {
		return
	}
	t.nyield++
	t.waitMu = mu
	s.park(t, SiteLock)
	t.waitMu = nil
}

// RWState is the state of a readers/writer lock implemented by the hook package.
type RWState struct {
	Readers int
	Writer  bool
}

// RWLockWait is LockWait for a readers/writer lock.
//
//go:norace
func (s *Sched) RWLockWait(rw *RWState, reader bool) {
	t := s.cur()
	if t == nil {
		return
	}
	t.nyield++
	t.waitRW, t.waitRd = rw, reader
	s.park(t, SiteLock)
	t.waitRW = nil
}
