# sourced by every script in /verif
export GOFLAGS=-mod=mod GOPROXY=off GOSUMDB=off GOTOOLCHAIN=local
export GOROOT=/opt/veriftools/go1.26.8
export PATH=/opt/veriftools/go1.26.8/bin:$PATH
# the directory these scripts live in (a background run works in a snapshot of /verif and
# must write its evidence and replay files there, not into /verif)
export VERIF_ROOT=${VERIF_ROOT:-$(pwd)}
export VERIF_REPO=${VERIF_REPO:-/repo}
export GOCACHE=${GOCACHE:-/root/.cache/go-build-verif}
