# sourced by every script in /verif
export GOFLAGS=-mod=mod GOPROXY=off GOSUMDB=off GOTOOLCHAIN=local
export GOROOT=/opt/veriftools/go1.26.8
export PATH=/opt/veriftools/go1.26.8/bin:$PATH
export VERIF_ROOT=${VERIF_ROOT:-/verif}
export VERIF_REPO=${VERIF_REPO:-/repo}
export GOCACHE=${GOCACHE:-/root/.cache/go-build-verif}
