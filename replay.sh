#!/bin/sh
# usage: replay.sh <replay file>   (re-executes a recorded violation in a fresh process)
cd "$(dirname "$0")" || exit 2
. ./env.sh
f=$1
case "$f" in /*) ;; *) f="$PWD/$f" ;; esac
kind=plain
grep -q '"property": "C\(10\|11\|33\)"' "$f" && kind=race
./build.sh $kind || exit 2
bin=bin/simcheck
[ $kind = race ] && bin=bin/simcheck-race
GORACE="halt_on_error=0 exitcode=0 log_path=${TMPDIR:-/tmp}/simcheck-replay-race" SIM_RACE_LOG="${TMPDIR:-/tmp}/simcheck-replay-race" \
 exec $bin -test.run='^TestSim$' -test.timeout=0 -sim.cmd=replay -sim.file="$f"
