#!/bin/sh
# usage: check.sh <property id> <quick|thorough>
# exit 0: property held on everything explored (KNOWN-FINDING lines allowed)
# exit 1: VIOLATION property=<id> replay=<path>
# exit 2: harness/build trouble (never a violation)
cd "$(dirname "$0")" || exit 2
. ./env.sh
id=$1
tier=${2:-${VERIF_TIER:-quick}}
case "$id" in
  C10|C11|C33) kind=race ;;
  *) kind=plain ;;
esac
./build.sh $kind || exit 2
bin=bin/simcheck
[ $kind = race ] && bin=bin/simcheck-race
exec $bin -test.run='^TestSim$' -test.timeout=0 -sim.cmd=run -sim.prop="$id" -sim.tier="$tier" 2>&1
