#!/bin/sh
# usage: check.sh <property id> <quick|thorough>
# exit 0: property held on everything explored (KNOWN-FINDING lines allowed)
# exit 1: VIOLATION property=<id> replay=<path>
# exit 2: harness/build trouble (never a violation)
cd "$(dirname "$0")" || exit 2
. ./env.sh
id=$1
tier=${2:-${VERIF_TIER:-quick}}
case "$id" in
  C10|C11|C33) kind=race ;;
  *) kind=plain ;;
esac
if [ -n "$VP_RUN_REPO" ] && [ -d "$VP_RUN_REPO" ]; then
  go mod edit -replace github.com/cosmos72/gomacro="$VP_RUN_REPO" || exit 2
fi
if [ "$id" = C17 ]; then
  # C17 owns Go's map iteration order inside base/dep: rewrite every range over a map in a
  # scratch copy and compile it in with -overlay (regenerated from /repo's tree on every run)
  ov=$(mktemp -d "${TMPDIR:-/tmp}/verif-c17-overlay.XXXXXX") || exit 2
  trap 'rm -rf "$ov"' EXIT
  go run ./tools/maprange -pkg github.com/cosmos72/gomacro/base/dep -out "$ov" >&2 || { echo "BUILD-FAILURE (maprange)" >&2; exit 2; }
  mkdir -p bin
  go test -c -tags verif -overlay "$ov/overlay.json" -o bin/simcheck-c17 ./cmd/simcheck || { echo "BUILD-FAILURE (overlay)" >&2; exit 2; }
  bin/simcheck-c17 -test.run='^TestSim$' -test.timeout=0 -sim.cmd=run -sim.prop="$id" -sim.tier="$tier" -sim.workers="${VERIF_WORKERS:-0}" 2>&1
  exit $?
fi
./build.sh $kind || exit 2
bin=bin/simcheck
[ $kind = race ] && bin=bin/simcheck-race
exec $bin -test.run='^TestSim$' -test.timeout=0 -sim.cmd=run -sim.prop="$id" -sim.tier="$tier" -sim.workers="${VERIF_WORKERS:-0}" 2>&1
