#!/bin/sh
# (re)build the check binaries from /repo's current working tree, hooks enabled (tag verif).
# usage: build.sh [plain|race|all]   exit 2 on build failure
cd "$(dirname "$0")" || exit 2
. ./env.sh
what=${1:-all}
mkdir -p bin
# a background run may point the harness at a snapshot of the repository (vp run --with-repo)
if [ -n "$VP_RUN_REPO" ] && [ -d "$VP_RUN_REPO" ]; then
  go mod edit -replace github.com/cosmos72/gomacro="$VP_RUN_REPO" || exit 2
fi
if [ "$what" = plain ] || [ "$what" = all ]; then
  go test -c -tags verif -o bin/simcheck ./cmd/simcheck || { echo "BUILD-FAILURE (plain)" >&2; exit 2; }
fi
if [ "$what" = race ] || [ "$what" = all ]; then
  go test -c -race -tags verif -o bin/simcheck-race ./cmd/simcheck || { echo "BUILD-FAILURE (race)" >&2; exit 2; }
fi
exit 0
