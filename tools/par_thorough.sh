#!/bin/sh
# run in a snapshot copy of /verif: two batches of four thorough checks in parallel
./build.sh all >/dev/null 2>&1
run() { id=$1; VERIF_WORKERS=4 ./check.sh $id thorough > out_$id.log 2>&1; code=$?; echo "$id exit=$code $(grep -a "$id thorough:" out_$id.log | cut -c1-160)"; grep -a "^VIOLATION\|^  class=\|HARNESS" out_$id.log | cut -c1-220 | head -6; }
for id in C17 C13 C19 C26; do run $id & sleep 40; done; wait
for id in C06 C07 C33 C11; do run $id & sleep 40; done; wait
echo ALL-DONE
