#!/bin/sh
# usage: tools/run_all.sh [quick|thorough] [ids...]   runs the registered checks one after the
# other on /repo's current tree, prints one line per check and validates the evidence files
cd "$(dirname "$0")/.." || exit 2
tier=${1:-quick}
shift 2>/dev/null
ids=${*:-$(python3 -c "import json;print(' '.join(c['property_id'] for c in json.load(open('MANIFEST.json'))['checks']))")}
if [ -n "$(git -C /repo status --short | grep -v code_generation.pdf)" ]; then echo "WARNING: /repo has uncommitted changes"; fi
rc=0
for id in $ids; do
  start=$(date +%s)
  ./check.sh $id $tier > /tmp/verif-run-$id.log 2>&1
  code=$?
  end=$(date +%s)
  echo "$id exit=$code $((end-start))s $(grep -a "^$id $tier:" /tmp/verif-run-$id.log | cut -c1-160)"
  grep -a "^VIOLATION\|^KNOWN-FINDING\|HARNESS-FAULT" /tmp/verif-run-$id.log | cut -c1-200
  [ $code != 0 ] && rc=1
  python3-vt - <<PY || rc=1
import json,jsonschema,sys
try:
    jsonschema.validate(json.load(open('evidence/$id.json')), json.load(open('/root/.vp/EVIDENCE.schema.json')))
except Exception as e:
    print('  EVIDENCE INVALID', str(e)[:300]); sys.exit(1)
PY
done
exit $rc
