#!/bin/sh
# usage: verify_mut.sh <ID>  : confirms patch applies to a clean checkout, builds, suite passes, demo fails with / passes without
id=$1
export GOFLAGS=-mod=mod GOPROXY=off GOSUMDB=off
wt=/tmp/vwt-$id
rm -rf $wt; git -C /repo worktree add -q --detach $wt HEAD || exit 2
cd $wt
res=""
mkdir -p _demo && cp /tmp/mut-$id/demo/main.go _demo/
race=""
grep -q '"-race"\|go run -race' /tmp/mut-$id/meta.json 2>/dev/null && race=""
go run ./_demo > /tmp/vm-$id-clean.txt 2>&1; c0=$?
git apply /tmp/mut-$id/patch.diff || res="$res patch-does-not-apply"
go build ./... || res="$res build-fails"
go run ./_demo > /tmp/vm-$id-mut.txt 2>&1; c1=$?
rm -rf _demo
go test -vet=off -count=1 ./... > /tmp/vm-$id-tests.txt 2>&1
fails=$(grep -a "^FAIL\|^--- FAIL" /tmp/vm-$id-tests.txt | grep -v "go/printer\|xreflect\|go/types\|TestFiles\|TestFromReflect6\|^FAIL$" | tr '\n' ';')
echo "$id demo_clean_exit=$c0 demo_mutated_exit=$c1 unexpected_test_failures=[$fails] $res"
cd /; git -C /repo worktree remove --force $wt
