#!/usr/bin/env python3
"""Regenerates /verif/MANIFEST.json from the table below (kept next to the checks)."""
import json, os, subprocess
root = os.path.dirname(os.path.dirname(os.path.abspath(__file__)))
props = [json.loads(l) for l in open(os.path.join(root, 'properties.jsonl'))]

claimed = {
 'C10': dict(level='exploration', design='3.1',
   text='Seeded search over goroutine interleavings: every run executes one of 7 concurrent templates (fan-out, pipeline, channel-operation soup, shared closures under a lock, time-outs, all select shapes, sync primitives: atomics on captured variables, condition-variable queue, readers/writer lock, context cancellation and deadline, timer stop/reset) natively and in the interpreter from one choice list under a parking scheduler that decides who runs at every yield (statement-level in the interpreter); oracles are the native twin (determinate observations and lockstep histories), a channel reference model replaying the completion-ordered history (admissible-outcome check for select and racing senders) and ThreadSanitizer with the scheduler handshakes hidden from it. Exploration, not proof: a clean batch is evidence over the sampled schedules only.',
   note='Trusted: Go toolchain (native twin), testing/synctest quiescence detection, ThreadSanitizer, the channel model (validated on every run against the history compiled Go produced). Interleavings finer than one interpreted statement are only race-detected. Templates are fixed programs with seeded behaviour; Go picks among ready select cases itself (recorded, replay re-rolls).',
   technique='deterministic simulation: seeded parking scheduler in a synctest bubble + native twin + channel reference model + race detector'),
 'C06': dict(level='exploration', design='3.7',
   text='Partial: decides the frame-recycling clause and closure sharing. Seeded histories of escape operations (closures and addresses of locals outliving their call, interleaved with frame-churning calls) are executed natively, interpreted with recycling disabled, and interpreted under a seeded allocator configuration (pool capacity 0/1/2/3/32, seeded drop-instead-of-recycle, in three runs out of four every recycled frame poisoned so any stale read is wrong at once, otherwise recycled with its old content as shipped). The three event logs must be equal and no sentinel may be observed.',
   note='One fixed template (escape patterns, every slot kind captured 3-6 frames down, compound assignment operators on captured places, re-entrant call sites of every arity, named-result returns, blank parameters, escaping addresses of parameters and receivers); call-specialisation correctness over the space of signatures is a pure function of the program and is NOT decided. Trusted: Go toolchain (twin). The allocator seam only changes capacity/recycling decisions and the content of released frames.',
   technique='deterministic simulation: allocator fault injection (pool capacity, drop, poison-on-free) + self-reference without recycling + native twin'),
 'C07': dict(level='exploration', design='3.6',
   text='Seeded defer/panic/recover call trees (one fixed universal template; every frame draws its defers, panics, recursion) executed natively and in the interpreter from one choice list, first fault-free and then with a panic injected at every fault point of the tree (enumerated per tree) with panic values of 6 dynamic types; the event logs (defer order, recovered values, results, escaping panic) must be equal event by event. Deferred arguments include structs, arrays and receivers modified after the defer statement. A separate battery covers deferred builtin calls (close, delete, copy, recover, print, panic; also after go).',
   note='Trusted: the Go toolchain as oracle. Excluded by documentation: recover inside compiled functions deferred by interpreted code, panic(nil), text of runtime-error panics. One fixed template: no syntactic variety.',
   technique='deterministic simulation: seeded fault plan (panic at every point) over a universal call tree + native twin, event-by-event'),
 'C12': dict(level='fault_enumeration', design='3.4',
   text='Enumerated crash points: for each probe program a panic is injected before every executed statement (statement seam) and inside every compiled-function call, through every public entry path (Eval, Compile+RunExpr, ParseEvalPrint, DebugExpr) with debugger / trap-panic options varied, every compiled-call point repeated with a nested evaluation that panics and is recovered by the compiled function (the outer evaluation must finish undisturbed), every third point (thorough: every point) repeated with an interrupt requested at the instant of the panic, plus pairs where the second panic lands while the first is being handled (thorough). After the aborted evaluation a fixed battery (defer order, recover in/outside defers, re-panic, named results, closures over globals, a goroutine, loops, recursion, a debug-stepped call with recorded stops, a direct call of an interpreted function value with a breakpoint) must give exactly what a fresh interpreter gives.',
   note='The fault space is enumerated exhaustively for the 11 fixed probe programs only; other programs are not covered. Trusted: the fresh interpreter as reference. Side effects of aborted code are excluded by construction of the battery.',
   technique='deterministic simulation: exhaustive single (and paired) panic-point enumeration through the statement seam + battery vs fresh interpreter'),
 'C13': dict(level='fault_enumeration', design='3.5',
   text='Enumerated interrupt delivery points: for 10 interrupt targets (loop shapes, recursion, a loop run by a closure created on another goroutine, a loop forwarding the results of a compiled function) Interp.Interrupt is delivered before every executed statement (from the evaluating goroutine, from another goroutine, doubled, from inside a compiled call, with Ctrl+C-enters-debugger, between evaluations). The executor must take the interrupt within 64 executed statements (else the seam aborts the run and reports it), the evaluation must end with the interrupt panic (or enter the debugger), the next evaluation must not see a stale flag, and the C12 battery must equal a fresh interpreter.',
   note='Runs without the race detector (the async flag store is an intentional benign race). Bound of 64 statements is a budget from the property text. Fixed targets only.',
   technique='deterministic simulation: exhaustive interrupt-point enumeration through the statement seam + bounded-progress monitor + battery vs fresh interpreter'),
 'C14': dict(level='exploration', design='3.12',
   text='Partial: decides pointer validity / aliasing across growth of the global slot arrays and in-order visibility. The growth chunk (16 values / 1024 integer slots as shipped: large enough that the reallocation path practically never runs) is a buggified tuning knob: per run it is replaced by 0/1/2/16 and 0/1/3/8, one run in 40 replays the shipped configuration with more than 1024 integer declarations. Seeded REPL histories (one top-level statement per evaluation: declarations of integer-slot and boxed kinds, address-taking, closures and functions capturing globals, writes directly / through pointers / through closures, bursts of further declarations, parallel short re-declarations, pointer-receiver method calls on globals of named numeric types, a switch as the very first evaluation, read-backs) are checked step by step against a sequential store model (cells, pointers and closures as references to cells); any internal error is a violation.',
   note='Equality with compiled Go for arbitrary statement kinds is a pure function of the program and NOT decided. Re-declarations (same and different kind / slot width) and assignments to function variables called from declared functions are generated; a slot invariant (no two live globals overlap) is checked after every evaluation. The model uses native Go values of the declared kinds, so arithmetic and formatting are Go\'s own.',
   technique='deterministic simulation: buggified tuning knob (slot-array growth) + seeded REPL histories + sequential store reference model'),
 'C17': dict(level='exploration', design='3.8',
   text='The nondeterminism this property depends on - Go map iteration order inside base/dep - is put behind a seam at check time: every range over a map in the package is rewritten on a scratch copy (go/packages + go/ast) into a loop over keys permuted by the choice source and compiled in with go build -overlay (/repo untouched, regenerated from the current tree on every run). Seeded dependency graphs over 2..9 (thorough 12) declarations are rendered as source with references at several block depths and shadowing parameters/results/locals, and sorted under 1 canonical + 12 seeded iteration orders. Oracles: identical output under all orders; every name once; dependencies (known by construction) first or a forward declaration of a cycle type; exact reference order for acyclic inputs; phase split; declaration-loop error iff a cycle without types.',
   note='Free names are known by construction of the generator; no second free-variable analysis is trusted. Multi-name var specs with explicit types, field-name / literal-key / label decoys are generated; iota groups and methods are not. For type cycles only determinism and ordering constraints are checked.',
   technique='deterministic simulation: build-time seam over map iteration order (overlay rewrite) + seeded iteration schedules + reference order known by construction'),
 'C19': dict(level='exploration', design='3.9',
   text='A second interactive party is simulated: at every debugger stop a simulated user draws the next command (step/next/finish/continue and abbreviations, empty line = repeat, print of a constant expression and of a call of a program function, vars, backtrace, unknown command, end of input) from the choice list, through (A) the real fast/debug.Debugger reading a simulated command stream and writing to a captured Stdout or (B) a direct fast.Debugger implementation. The statement seam records every executed statement (call depth, line) of the same run as ground truth; a stop-rule model replays stops, commands and statements in order and must agree; the program\'s results must equal the undebugged run and the native twin (transparency); runaway sessions are cut by a statement budget and reported.',
   note='One fixed program template with seeded behaviour. After end of input on the command stream the debugger continues (documented). Trusted: the Fileset line mapping used to match stops to statements.',
   technique='deterministic simulation: simulated interactive user on the debugger command stream + statement-level ground truth + stop-rule reference model'),
 'C26': dict(level='exploration', design='3.10',
   text='Seeded streams assembled from statement templates whose token structure and statement boundaries are known by construction, delivered through a simulated byte source (bufio over 1..7-byte fragments with zero-byte reads, a one-line-per-call line source, whole buffer in one read) with injected faults (EOF at an arbitrary byte biased into strings/comments/open brackets, non-EOF read error at an arbitrary byte followed or not by more data, missing final newline, CRLF, #! first line). Oracles: chunks concatenate to exactly the bytes delivered (with #! -> //), every chunk ends at a constructed statement boundary (never inside a token or open bracket, never cutting a continued statement), every chunk parses on its own, the chunking is identical under every delivery schedule, and the EOF error kind tells whether brackets were open.',
   note='Templates are a fixed alphabet (about 90 statement shapes, including lines longer than the buffer of bufio, the character after a division operator, comments ending in **/, tabs in literals, trailing selector dots, line-ending keywords glued to brackets); standard-library files are not used. A line source returning several lines per call is outside the Readline contract both real implementations follow and is not simulated. After an injected non-EOF error nothing is required of the rest of the stream.',
   technique='deterministic simulation: simulated byte/line source with seeded fragmentation and injected EOF/read errors + boundaries known by construction'),
 'C27': dict(level='exploration', design='3.11',
   text='Partial: decides clause 1 (positions across chunks). Seeded multi-chunk sources (declarations with continuation lines, multi-line raw strings, groups, separated by seeded runs of blank lines and comments) optionally preceded by a package clause and by chunks that fail (compile error, syntax error, run-time panic), carry one marker at a constructed line:column - undefined identifier (compile error), invalid token (parse error), or a "break" statement reached under the real debugger (stop position); one run in four of the EvalReader / EvalFile entries first abandons another source midway on the same interpreter. They are evaluated through EvalReader over a fragmenting byte source, EvalFile on a real file, and the REPL loop over a line source; the file:line:col in the captured report must equal the constructed position under every delivery and any number of preceding chunks.',
   note='Clause 2 (file-set arithmetic with a starting line offset) is a pure function and NOT decided here; panic locations are not reported with positions by the interpreter at all. Only error kinds whose offending token is unambiguous are used.',
   technique='deterministic simulation: simulated byte/line source driving EvalReader/EvalFile/REPL + positions known by construction'),
 'C33': dict(level='exploration', design='3.2',
   text='Seeded search over interleavings of the goroutine-registry protocol: short-lived goroutines enter interpreted code through go statements (named function, literal, nested: goroutines started by goroutines) and through compiled code calling interpreted closures, with yield points at every registry step (lookup, create, store, delete) and every statement; the identity source is either the real one (checked for constancy/uniqueness against runtime goroutine numbers) or a simulated pool of 3 identities with immediate reuse after exit. An ownership monitor at every frame allocation/release asserts that the runtime record and frames in use belong to the current live task only; results are compared with the native twin; ThreadSanitizer runs with the scheduler handshakes hidden.',
   note='Trusted: testing/synctest quiescence, runtime goroutine numbers (runtime.Stack) as ground truth for identity, ThreadSanitizer. The assembly GoID is observed, not explored. At most 3 live goroutines and 12 per run.',
   technique='deterministic simulation: seeded scheduler with protocol-step yields + identity-reuse fault injection + ownership monitor + race detector'),
 'C11': dict(level='exploration', design='3.3',
   text='Partial: decides the concurrent-invocation clauses (callbacks invoked from other goroutines; interpreted types used through compiled interfaces by compiled code while several foreign goroutines do so at once). Seeded schedules over 1..3 foreign goroutines routing interpreted functions/types through sort.Slice, sort.Sort/Stable/Search, strings.Map/FieldsFunc/IndexFunc, container/heap, fmt via Stringer/error, io.ReadAll, io.Writer via fmt.Fprintf, sync.Once.Do, sync.Map.Range, sync.Pool.New, time.AfterFunc (fake clock), closures handed to compiled code that runs them on another goroutine while the creator keeps running, and values of program types stored through interface-typed slice/map/array elements, fields and pointer targets; oracles: native twin, ownership monitor, race detector.',
   note='Only a fixed corpus of compiled entry points is exercised; single-threaded interop over the space of programs and interfaces is a pure function of the program and is NOT decided by this check. Trusted: Go toolchain (native twin), synctest, ThreadSanitizer.',
   technique='deterministic simulation: seeded scheduler over foreign goroutines entering interpreted code + native twin + race detector'),
}

na_reason = {}
for l in open(os.path.join(root, 'tools', 'not_applicable.txt')):
    l = l.strip()
    if l and not l.startswith('#'):
        k, v = l.split('\t', 1)
        na_reason[k] = v

checks = []
for pid, c in sorted(claimed.items()):
    checks.append({
        'property_id': pid,
        'quick_cmd': './check.sh %s quick' % pid,
        'thorough_cmd': './check.sh %s thorough' % pid,
        'evidence_file': '/verif/evidence/%s.json' % pid,
        'replay_cmd_template': './replay.sh {path}',
        'engine': 'simcheck',
        'level_claimed': {'category': c['level'], 'text': c['text'], 'design_ref': 'DESIGN.md section ' + c['design']},
        'level_note': c['note'],
        'technique': c['technique'],
    })

hooks_commits = subprocess.run(['git', '-C', '/repo', 'log', '--format=%h %s', '--grep=^verif hooks'], capture_output=True, text=True).stdout.strip().split('\n')
m = {
 'version': 1,
 'setup_cmd': './setup.sh',
 'hooks': {
   'guard': 'verif',
   'enable': 'go build tag: the checks build /repo through the harness module /verif (replace github.com/cosmos72/gomacro => /repo) with `go test -c -tags verif`; without the tag verifOn is the constant false and every hook line is compiled away',
   'baseline_off_cmd': './baseline_off.sh',
   'source_commits': [c.split()[0] for c in hooks_commits if c],
   'add_only': True,
 },
 'engines': [
   {'name': 'simcheck', 'path': '/verif/cmd/simcheck', 'serves_properties': sorted(claimed), 'kind_free_text': 'deterministic simulator (seeded choice source, parking scheduler inside a testing/synctest bubble, fault injection through build-tag hooks, native twins and reference models as oracles, delta-debugging shrinker, replay files)'},
 ],
 'checks': checks,
 'notes': 'Technique family: deterministic simulation with fault injection. See DESIGN.md. Exit codes of every check: 0 held, 1 VIOLATION, 2 harness/build trouble (never a violation).',
 'not_applicable': [{'property_id': p['id'], 'reason': na_reason.get(p['id'], 'not yet claimed (machinery under construction); see DESIGN.md')} for p in props if p['id'] not in claimed],
}
json.dump(m, open(os.path.join(root, 'MANIFEST.json'), 'w'), indent=1)
print('claimed', sorted(claimed), 'n/a', len(m['not_applicable']))
