#!/bin/sh
# usage: tools/determinism.sh [n] [ids...]  - same seeds in 6 fresh processes at GOMAXPROCS 1/4/16
cd "$(dirname "$0")/.." || exit 2
. ./env.sh
n=${1:-64}
shift 2>/dev/null
ids=${*:-C06 C07 C10 C11 C12 C13 C14 C19 C26 C27 C33}
./build.sh all || exit 2
rc=0
for id in $ids; do
  bin=bin/simcheck
  case $id in C10|C11|C33) bin=bin/simcheck-race ;; esac
  $bin -test.run='^TestSim$' -test.timeout=0 -sim.cmd=determinism -sim.prop=$id -sim.to=$n 2>&1 | grep -a "determinism\|NONDET\|HARNESS" || rc=1
done
exit $rc
