#!/bin/sh
# usage: tools/seeded_regress.sh [seed-dir-names...]
# Sensitivity regression: applies every seeded change (seeded/<id>-<n>/patch.diff) to a scratch
# worktree of /repo, runs the quick check named in its meta.json ("detected_by") from a scratch
# copy of the committed /verif against that worktree, and expects exit 1 (VIOLATION).
# /repo and /verif themselves are not touched. Prints one line per seed and a summary;
# exit 0 if every applicable seed was detected.
cd "$(dirname "$0")/.." || exit 2
root=$(pwd)
scratch=$(mktemp -d "${TMPDIR:-/tmp}/verif-seeded.XXXXXX") || exit 2
trap 'git -C /repo worktree remove --force "$scratch/repo" 2>/dev/null; rm -rf "$scratch"' EXIT
git -C /repo worktree add -q --detach "$scratch/repo" HEAD || exit 2
mkdir "$scratch/verif" && git -C "$root" archive HEAD | tar -x -C "$scratch/verif" || exit 2
seeds=${*:-$(ls "$root/seeded")}
missed=0; caught=0; skipped=0
for s in $seeds; do
  d="$root/seeded/$s"
  [ -f "$d/patch.diff" ] || continue
  ids=$(jq -r '.detected_by // .property' "$d/meta.json" | tr -c 'A-Z0-9\n' ' ' | tr ' ' '\n' | grep '^C[0-9][0-9]$' | head -1)
  [ -n "$ids" ] || ids=$(jq -r .property "$d/meta.json")
  if ! git -C "$scratch/repo" apply "$d/patch.diff" 2>/dev/null && ! { git -C "$scratch/repo" apply --3way "$d/patch.diff" >/dev/null 2>&1 && git -C "$scratch/repo" reset -q && [ -z "$(git -C "$scratch/repo" diff --name-only --diff-filter=U)" ] && ! grep -rl "^<<<<<<<" $(git -C "$scratch/repo" diff --name-only | sed "s|^|$scratch/repo/|") >/dev/null 2>&1; }; then
    git -C "$scratch/repo" checkout -q -- . 2>/dev/null
    echo "$s SKIP patch no longer applies to /repo HEAD"
    skipped=$((skipped+1))
    continue
  fi
  ( cd "$scratch/verif" && VP_RUN_REPO="$scratch/repo" ./check.sh "$ids" quick > "$scratch/log" 2>&1 )
  code=$?
  git -C "$scratch/repo" checkout -q -- .
  key=$(grep -a -m1 "^  class=" "$scratch/log" | cut -c1-140)
  if [ $code -eq 1 ]; then
    caught=$((caught+1)); echo "$s CAUGHT by $ids:$key"
  else
    missed=$((missed+1)); echo "$s NOT-CAUGHT by $ids (exit $code)"
    [ $code -eq 2 ] && tail -5 "$scratch/log" | cut -c1-300 | sed 's/^/    | /' 
  fi
done
echo "seeded regression: caught=$caught not-caught=$missed skipped=$skipped"
[ $missed -eq 0 ]
