#!/bin/sh
# usage: tools/try_mutation.sh <patch.diff> <tier> <ids...>  applies a patch to /repo, runs the given
# checks, always reverts. Evidence files written meanwhile are restored from git afterwards.
cd "$(dirname "$0")/.." || exit 2
patch=$1; tier=$2; shift 2
git -C /repo apply "$patch" || { echo "patch does not apply"; exit 2; }
trap 'git -C /repo checkout -- . ; git -C /verif checkout -- evidence 2>/dev/null' EXIT
for id in "$@"; do
  start=$(date +%s)
  ./check.sh $id $tier > /tmp/verif-mut-$id.log 2>&1
  code=$?
  end=$(date +%s)
  echo "$id exit=$code $((end-start))s $(grep -a "^$id $tier:" /tmp/verif-mut-$id.log | cut -c1-120)"
  grep -a "^VIOLATION\|^  class=\|HARNESS-FAULT" /tmp/verif-mut-$id.log | cut -c1-220 | head -8
done
