// Command maprange rewrites every `range` over a string-keyed map in a package into a loop
// over simmap.Keys(m) and writes the rewritten files plus a `go build -overlay` JSON file.
//
//	maprange -pkg github.com/cosmos72/gomacro/base/dep -out <scratch dir>
package main

import (
	"bytes"
	"encoding/json"
	"flag"
	"fmt"
	"go/ast"
	"go/printer"
	"go/token"
	"go/types"
	"os"
	"path/filepath"

	"golang.org/x/tools/go/ast/astutil"
	"golang.org/x/tools/go/packages"
)

func fatal(format string, args ...interface{}) {
	fmt.Fprintf(os.Stderr, "maprange: "+format+"\n", args...)
	os.Exit(2)
}

func main() {
	pkgPath := flag.String("pkg", "", "import path of the package to rewrite")
	out := flag.String("out", "", "scratch directory for the rewritten files and overlay.json")
	flag.Parse()
	if *pkgPath == "" || *out == "" {
		fatal("usage: maprange -pkg <import path> -out <dir>")
	}
	cfg := &packages.Config{Mode: packages.NeedName | packages.NeedFiles | packages.NeedCompiledGoFiles | packages.NeedSyntax | packages.NeedTypes | packages.NeedTypesInfo | packages.NeedImports | packages.NeedDeps}
	pkgs, err := packages.Load(cfg, *pkgPath)
	if err != nil || len(pkgs) != 1 {
		fatal("cannot load %s: %v", *pkgPath, err)
	}
	pkg := pkgs[0]
	if len(pkg.Errors) > 0 {
		fatal("package %s does not type-check: %v", *pkgPath, pkg.Errors)
	}
	if err := os.MkdirAll(*out, 0o755); err != nil {
		fatal("%v", err)
	}
	overlay := map[string]string{}
	total := 0
	for i, file := range pkg.Syntax {
		n := 0
		counter := 0
		astutil.Apply(file, nil, func(c *astutil.Cursor) bool {
			rs, ok := c.Node().(*ast.RangeStmt)
			if !ok {
				return true
			}
			t := pkg.TypesInfo.TypeOf(rs.X)
			if t == nil {
				return true
			}
			mt, ok := t.Underlying().(*types.Map)
			if !ok {
				return true
			}
			if b, ok := mt.Key().Underlying().(*types.Basic); !ok || b.Kind() != types.String {
				fatal("%s: range over a map with non-string keys is not supported by the rewriter", pkg.Fset.Position(rs.Pos()))
			}
			if rs.Tok != token.DEFINE && (rs.Key != nil || rs.Value != nil) {
				fatal("%s: range with '=' is not supported by the rewriter", pkg.Fset.Position(rs.Pos()))
			}
			counter++
			kname := fmt.Sprintf("simmapKey%d", counter)
			key := ast.NewIdent(kname)
			if id, ok := rs.Key.(*ast.Ident); ok && id.Name != "_" {
				key = ast.NewIdent(id.Name)
			}
			okv := ast.NewIdent(fmt.Sprintf("simmapOk%d", counter))
			// the map expression is evaluated once, before the loop variables are in scope
			// (as in the original range statement: `for name := range g.Edges[name]`)
			mvar := fmt.Sprintf("simmapMap%d", counter)
			var val ast.Expr = ast.NewIdent("_")
			if id, ok := rs.Value.(*ast.Ident); ok && id.Name != "_" {
				val = ast.NewIdent(id.Name)
			} else if rs.Value != nil {
				if _, isId := rs.Value.(*ast.Ident); !isId {
					fatal("%s: unsupported range value expression", pkg.Fset.Position(rs.Pos()))
				}
			}
			// V, ok := M[K]; if !ok { continue }
			lookup := &ast.AssignStmt{
				Lhs: []ast.Expr{val, okv},
				Tok: token.DEFINE,
				Rhs: []ast.Expr{&ast.IndexExpr{X: ast.NewIdent(mvar), Index: ast.NewIdent(key.Name)}},
			}
			guard := &ast.IfStmt{
				Cond: &ast.UnaryExpr{Op: token.NOT, X: ast.NewIdent(okv.Name)},
				Body: &ast.BlockStmt{List: []ast.Stmt{&ast.BranchStmt{Tok: token.CONTINUE}}},
			}
			body := &ast.BlockStmt{List: append([]ast.Stmt{lookup, guard}, rs.Body.List...)}
			loop := &ast.RangeStmt{
				Key:   ast.NewIdent("_"),
				Value: key,
				Tok:   token.DEFINE,
				X: &ast.CallExpr{
					Fun:  &ast.SelectorExpr{X: ast.NewIdent("simmap"), Sel: ast.NewIdent("Keys")},
					Args: []ast.Expr{ast.NewIdent(mvar)},
				},
				Body: body,
			}
			bind := &ast.AssignStmt{Lhs: []ast.Expr{ast.NewIdent(mvar)}, Tok: token.DEFINE, Rhs: []ast.Expr{rs.X}}
			if _, labeled := c.Parent().(*ast.LabeledStmt); labeled {
				fatal("%s: labeled range over a map is not supported by the rewriter", pkg.Fset.Position(rs.Pos()))
			}
			c.Replace(&ast.BlockStmt{List: []ast.Stmt{bind, loop}})
			n++
			return true
		})
		if n == 0 {
			continue
		}
		total += n
		astutil.AddImport(pkg.Fset, file, "verif/simmap")
		var buf bytes.Buffer
		if err := printer.Fprint(&buf, pkg.Fset, file); err != nil {
			fatal("%v", err)
		}
		orig := pkg.CompiledGoFiles[i]
		dst := filepath.Join(*out, filepath.Base(orig))
		if err := os.WriteFile(dst, buf.Bytes(), 0o644); err != nil {
			fatal("%v", err)
		}
		overlay[orig] = dst
	}
	if total == 0 {
		fatal("no range over a map found in %s", *pkgPath)
	}
	b, _ := json.MarshalIndent(map[string]interface{}{"Replace": overlay}, "", " ")
	if err := os.WriteFile(filepath.Join(*out, "overlay.json"), b, 0o644); err != nil {
		fatal("%v", err)
	}
	fmt.Printf("maprange: rewrote %d map iterations in %d files of %s\n", total, len(overlay), *pkgPath)
}
