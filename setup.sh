#!/bin/sh
# build the framework offline from files on disk only
set -e
cd "$(dirname "$0")"
. ./env.sh
exec ./build.sh
