// Package simmap gives the simulator ownership of Go's map iteration order.
//
// At check time every `range` over a map in the package under test is rewritten (on a
// scratch copy, compiled in with `go build -overlay`) into a loop over simmap.Keys(m):
// the keys in canonical (sorted) order, permuted by the choice source, each key re-checked
// for presence by the rewritten loop - a legal Go iteration order even when the body
// deletes entries. With no Order hook installed the order is the sorted one.
package simmap

import "sort"

// Order, if set, returns a permutation of 0..n-1 (seeded by the simulator).
var Order func(n int) []int

// Calls counts the map iterations routed through this package (proves the overlay is active).
var Calls int

// MultiKey counts the iterations over maps with at least 2 keys (where order matters).
var MultiKey int

func Keys[V any](m map[string]V) []string {
	Calls++
	keys := make([]string, 0, len(m))
	for k := range m {
		keys = append(keys, k)
	}
	sort.Strings(keys)
	if len(keys) >= 2 {
		MultiKey++
		if f := Order; f != nil {
			perm := f(len(keys))
			out := make([]string, len(keys))
			for i, p := range perm {
				out[i] = keys[p]
			}
			return out
		}
	}
	return keys
}
