module verif

go 1.26.8

require (
	github.com/cosmos72/gomacro v0.0.0
	golang.org/x/tools v0.50.0
)

require (
	github.com/mattn/go-runewidth v0.0.15 // indirect
	github.com/peterh/liner v1.2.2 // indirect
	github.com/rivo/uniseg v0.2.0 // indirect
	golang.org/x/mod v0.41.0 // indirect
	golang.org/x/sync v0.23.0 // indirect
)

replace github.com/cosmos72/gomacro => /repo
