package c10g

import _ "embed"

//go:embed prog.go
var Source string
