package c10g

import (
	"context"
	"sync"
	"sync/atomic"
	"time"

	"verif/hook"
)

// sync primitives driven from goroutines of the program: atomics on captured variables, a
// queue built on condition variables, a readers/writer lock, context cancellation and
// deadline, timer stop/reset. Every "=" event is schedule independent.

func atomics() {
	var wg sync.WaitGroup
	var sum int64
	var hi int32
	var ops uint32
	n := 2 + hook.Choose(3)
	for i := 0; i < n; i++ {
		wg.Add(1)
		go func(tok int, id int) {
			hook.Start(tok)
			for j := 1; j <= 3; j++ {
				atomic.AddInt64(&sum, int64(id*10+j))
				hook.Y()
				v := int32(id*7 + j)
				for {
					old := atomic.LoadInt32(&hi)
					if v <= old {
						break
					}
					hook.Y()
					if atomic.CompareAndSwapInt32(&hi, old, v) {
						break
					}
				}
				atomic.AddUint32(&ops, 1)
			}
			wg.Done()
			hook.Exit(tok)
		}(hook.Spawn(), i)
	}
	wg.Wait()
	hook.Ev("=atomics", n, atomic.LoadInt64(&sum), atomic.LoadInt32(&hi), atomic.LoadUint32(&ops))
}

type queue struct {
	mu       *hook.Mutex
	nonEmpty *sync.Cond
	nonFull  *sync.Cond
	buf      []int
	max      int
	closed   bool
}

func newQueue(max int) *queue {
	q := &queue{mu: hook.NewMutex(), max: max}
	q.nonEmpty = sync.NewCond(q.mu)
	q.nonFull = sync.NewCond(q.mu)
	return q
}

func (q *queue) put(v int) {
	q.mu.Lock()
	for len(q.buf) >= q.max {
		q.nonFull.Wait()
	}
	q.buf = append(q.buf, v)
	q.nonEmpty.Signal()
	q.mu.Unlock()
}

func (q *queue) get() (int, bool) {
	q.mu.Lock()
	for len(q.buf) == 0 && !q.closed {
		q.nonEmpty.Wait()
	}
	if len(q.buf) == 0 {
		q.mu.Unlock()
		return 0, false
	}
	v := q.buf[0]
	q.buf = q.buf[1:]
	q.nonFull.Signal()
	q.mu.Unlock()
	return v, true
}

func (q *queue) shut() {
	q.mu.Lock()
	q.closed = true
	q.nonEmpty.Broadcast()
	q.mu.Unlock()
}

func condQueue() {
	q := newQueue(1 + hook.Choose(3))
	np := 1 + hook.Choose(3)
	nc := 1 + hook.Choose(3)
	per := 1 + hook.Choose(4)
	var pw, cw sync.WaitGroup
	results := make(chan int, nc)
	counts := make(chan int, nc)
	for i := 0; i < np; i++ {
		pw.Add(1)
		go func(tok int, id int) {
			hook.Start(tok)
			for j := 0; j < per; j++ {
				q.put(id*100 + j)
				hook.Y()
			}
			pw.Done()
			hook.Exit(tok)
		}(hook.Spawn(), i)
	}
	for i := 0; i < nc; i++ {
		cw.Add(1)
		go func(tok int) {
			hook.Start(tok)
			s, k := 0, 0
			for {
				v, ok := q.get()
				if !ok {
					break
				}
				s += v
				k++
				hook.Y()
			}
			results <- s
			counts <- k
			cw.Done()
			hook.Exit(tok)
		}(hook.Spawn())
	}
	pw.Wait()
	q.shut()
	cw.Wait()
	close(results)
	close(counts)
	sum, cnt := 0, 0
	for s := range results {
		sum += s
	}
	for k := range counts {
		cnt += k
	}
	hook.Ev("=queue", np, nc, per, sum, cnt, len(q.buf))
}

func readersWriter() {
	m := hook.NewRWMutex()
	a, b := 0, 0
	nw := 1 + hook.Choose(2)
	nr := 1 + hook.Choose(3)
	var wg sync.WaitGroup
	bad := make(chan int, nr)
	for i := 0; i < nw; i++ {
		wg.Add(1)
		go func(tok int) {
			hook.Start(tok)
			for j := 0; j < 3; j++ {
				m.Lock()
				a++
				hook.Y()
				b++
				m.Unlock()
				hook.Y()
			}
			wg.Done()
			hook.Exit(tok)
		}(hook.Spawn())
	}
	for i := 0; i < nr; i++ {
		wg.Add(1)
		go func(tok int) {
			hook.Start(tok)
			torn := 0
			for j := 0; j < 3; j++ {
				m.RLock()
				x := a
				hook.Y()
				y := b
				m.RUnlock()
				if x != y {
					torn++
				}
				hook.Y()
			}
			bad <- torn
			wg.Done()
			hook.Exit(tok)
		}(hook.Spawn())
	}
	wg.Wait()
	close(bad)
	torn := 0
	for t := range bad {
		torn += t
	}
	m.RLock()
	hook.Ev("=rw", nw, nr, a, b, torn)
	m.RUnlock()
}

func cancellation() {
	ctx, cancel := context.WithCancel(context.Background())
	out := make(chan int)
	var wg sync.WaitGroup
	n := 2 + hook.Choose(2)
	for i := 0; i < n; i++ {
		wg.Add(1)
		go func(tok int, id int) {
			hook.Start(tok)
			k := 0
			for {
				select {
				case out <- id*100 + k:
					k++
				case <-ctx.Done():
					hook.Ev("cancelled", id, ctx.Err() == context.Canceled)
					wg.Done()
					hook.Exit(tok)
					return
				}
				hook.Y()
			}
		}(hook.Spawn(), i)
	}
	want := 3 + hook.Choose(4)
	got := 0
	for got < want {
		<-out
		got++
	}
	cancel()
	wg.Wait()
	late := 0
	select {
	case <-out:
		late++
	default:
	}
	// a deadline derived from a live parent: the deadline (25ms) beats the timer (40ms)
	parent, stop := context.WithCancel(context.Background())
	dctx, dcancel := context.WithTimeout(parent, 25*time.Millisecond)
	start := time.Now()
	which := ""
	select {
	case <-dctx.Done():
		which = "deadline"
	case <-time.After(40 * time.Millisecond):
		which = "timer"
	}
	el := int(time.Since(start) / time.Millisecond)
	exceeded := dctx.Err() == context.DeadlineExceeded
	dcancel()
	stop()
	hook.Ev("=ctx", n, got, late, which, el, exceeded, parent.Err() == context.Canceled)
}

func timers() {
	t := time.NewTimer(50 * time.Millisecond)
	stopped := t.Stop()
	t.Reset(20 * time.Millisecond)
	start := time.Now()
	done := make(chan int)
	go func(tok int) {
		hook.Start(tok)
		<-t.C
		done <- int(time.Since(start) / time.Millisecond)
		hook.Exit(tok)
	}(hook.Spawn())
	el := <-done
	again := t.Stop()
	fired := make(chan int, 4)
	for i := 1; i <= 3; i++ {
		d := i
		hook.AfterFunc(time.Duration(10*d)*time.Millisecond, func() {
			fired <- d
		})
	}
	order := 0
	for i := 0; i < 3; i++ {
		order = order*10 + <-fired
	}
	hook.Ev("=timers", stopped, el, again, order)
}

type cfg struct {
	id  int
	w   [3]int
	tag string
}

func (c cfg) report(tok int, res chan int, wg *sync.WaitGroup) {
	hook.Start(tok)
	hook.Y()
	res <- c.id*100000 + c.w[0]*100 + len(c.tag)
	wg.Done()
	hook.Exit(tok)
}

// goArgs: function value, receiver and arguments of a go statement are evaluated (copied) by
// the go statement; the parent keeps changing its own variables afterwards.
func goArgs() {
	var wg sync.WaitGroup
	res := make(chan int, 16)
	c := cfg{1, [3]int{1, 2, 3}, "a"}
	arr := [2]int{7, 8}
	fs := []func(int) int{func(x int) int {
		return x + 1
	}, func(x int) int {
		return x * 2
	}}
	n := 2 + hook.Choose(2)
	for i := 0; i < n; i++ {
		c.id = i + 1
		c.w[0] = i * 10
		c.tag += "b"
		arr[1] = i
		k := i % 2
		wg.Add(3)
		go func(tok int, c cfg, a [2]int) {
			hook.Start(tok)
			hook.Y()
			res <- c.id*1000 + c.w[0]*10 + a[1] + len(c.tag)
			wg.Done()
			hook.Exit(tok)
		}(hook.Spawn(), c, arr)
		go c.report(hook.Spawn(), res, &wg)
		go func(tok int, f func(int) int) {
			hook.Start(tok)
			hook.Y()
			res <- f(20)
			wg.Done()
			hook.Exit(tok)
		}(hook.Spawn(), fs[k])
		c.id = -1
		c.w[0] = -5
		c.tag = ""
		arr[1] = -9
		fs[k] = func(x int) int {
			return -x
		}
		hook.Y()
		fs[k] = fs[1-k]
		c.tag = "a"
	}
	wg.Wait()
	close(res)
	sum := 0
	for v := range res {
		sum += v
	}
	hook.Ev("=goargs", n, sum)
}

func Main() {
	switch hook.Choose(6) {
	case 5:
		goArgs()
	case 0:
		atomics()
	case 1:
		condQueue()
	case 2:
		readersWriter()
	case 3:
		cancellation()
	default:
		timers()
	}
}
