package c10d

import _ "embed"

//go:embed prog.go
var Source string
