package c10d

import (
	"sync"

	"verif/hook"
)

// closures and package-level functions shared between goroutines, a lock-protected counter,
// goroutines started from goroutines. The final values are schedule independent.

var total int

func add(k int) int {
	return k*2 + 1
}

func bump(mu *sync.Mutex, inc func(int), k int) {
	hook.Lock(mu)
	inc(add(k))
	hook.Unlock(mu)
}

func child(tok int, mu *sync.Mutex, inc func(int), wg *sync.WaitGroup, depth int, k int) {
	hook.Start(tok)
	bump(mu, inc, k)
	if depth > 0 {
		wg.Add(1)
		go child(hook.Spawn(), mu, inc, wg, depth-1, k+10)
	}
	hook.Y()
	bump(mu, inc, k+1)
	wg.Done()
	hook.Exit(tok)
}

func Main() {
	var mu sync.Mutex
	var wg sync.WaitGroup
	count := 0
	calls := 0
	inc := func(d int) {
		c := count
		hook.Y()
		count = c + d
		calls++
	}
	total = 0
	n := 2 + hook.Choose(3)
	for i := 0; i < n; i++ {
		wg.Add(1)
		go child(hook.Spawn(), &mu, inc, &wg, hook.Choose(3), i*100)
	}
	results := make(chan int, n)
	for i := 0; i < n; i++ {
		i := i
		wg.Add(1)
		go func(tok int) {
			hook.Start(tok)
			s := 0
			for j := 0; j < 3; j++ {
				s += add(i + j)
				hook.Y()
			}
			results <- s
			wg.Done()
			hook.Exit(tok)
		}(hook.Spawn())
	}
	wg.Wait()
	close(results)
	for s := range results {
		total += s
	}
	hook.Ev("=count", count, calls, total)
}
