package c06a

import "verif/hook"

// escape patterns: closures and addresses of locals that outlive the call that created them,
// interleaved with calls that allocate and free many frames (so freed frames are reused).

type counter struct {
	n int
}

func (c *counter) Inc(d int) int {
	c.n += d
	return c.n
}

func (c counter) Get() int {
	return c.n
}

var gfuncs []func() int
var gsetters []func(int)
var gptrs []*int
var gsptrs []*counter
var gmap map[int]func(int) int

func mkCounter(start int) func() int {
	c := start
	return func() int {
		c++
		return c
	}
}

// two closures sharing one captured variable by reference
func mkPair(start int) (func() int, func(int)) {
	v := start
	get := func() int {
		return v
	}
	set := func(d int) {
		v += d
	}
	return get, set
}

func addrOfLocal(x int) *int {
	y := x * 2
	z := x + 1
	y += z
	return &y
}

// the address is taken one and two frames below the frame that owns the variable
// (blocks with their own locals get their own frame)
func addrInBlock(x int) *int {
	y := x + 1
	if x >= 0 {
		z := y * 2
		y += z
		return &y
	}
	return &y
}

func addrInBlock2(x int) (*int, *float64, *bool) {
	a := x * 3
	f := float64(x) / 2
	b := x%2 == 0
	var pa *int
	var pf *float64
	var pb *bool
	for i := 0; i < 1; i++ {
		k := i + a
		if k >= i {
			m := k + 1
			pa = &a
			pf = &f
			a += m - m
		}
		pb = &b
	}
	return pa, pf, pb
}

var gfptrs []*float64
var gbptrs []*bool

func addrOfBoth(x int) (*int, *int) {
	a := x
	b := x * 3
	return &a, &b
}

func addrOfStruct(x int) *counter {
	c := counter{x}
	c.n++
	return &c
}

func loopClosures(n int, base int) []func() int {
	var fs []func() int
	for i := 0; i < n; i++ {
		j := i + base
		fs = append(fs, func() int {
			j++
			return j * 10
		})
	}
	return fs
}

func nestedBlocks(x int) func() int {
	if x > 0 {
		a := x
		{
			b := a + 1
			if b > 1 {
				c := b * 2
				return func() int {
					a++
					return a*10000 + b*100 + c
				}
			}
		}
	}
	return func() int {
		return -x
	}
}

func recurse(n int, acc []func() int) []func() int {
	if n == 0 {
		return acc
	}
	k := n * 7
	acc = append(acc, func() int {
		k++
		return k
	})
	return recurse(n-1, acc)
}

func isEven(n int) bool {
	if n == 0 {
		return true
	}
	if n == 1 {
		return false
	}
	m := n - 2
	return isEven(m)
}

func variadic(base int, xs ...int) int {
	s := base
	for _, x := range xs {
		s += x
	}
	return s
}

func multi(x int) (a int, b string, c func() int) {
	a = x * 2
	b = "m"
	if x%2 == 0 {
		b = "even"
	}
	c = func() int {
		a++
		return a + len(b)
	}
	return
}

// a closure created inside a function literal that has no variables of its own
// and captures a variable of the function around it
func viaIIFE(start int) func() int {
	x := start
	var f func() int
	func() {
		f = func() int {
			x++
			return x
		}
	}()
	return f
}

// a function without parameters, results and locals that lets a closure escape
func hookAppend() {
	gfuncs = append(gfuncs, func() int {
		return 7
	})
}

var ghook func()

func callHook(n int) {
	ghook()
}

// frames with only boxed slots / only integer slots around an escaping closure
func onlyBoxed(s string) func() int {
	t := s + "!"
	return func() int {
		t += "x"
		return len(t)
	}
}

func onlyInts(a int, b int) func() int {
	c := a * b
	return func() int {
		c += a
		return c - b
	}
}

// churn allocates and frees frames of several shapes
func churn(depth int) int {
	a, b, c := depth, depth*2, depth*3
	var s string = "s"
	f := 1.5
	if depth == 0 {
		return a + b + c + len(s) + int(f)
	}
	t := 0
	for i := 0; i < 2; i++ {
		u := i + depth
		t += u
	}
	if depth%2 == 0 {
		return churn(depth-1) + t + variadic(1, a, b)
	}
	return churn(depth-1) + a + t
}

func churn2(n int) int {
	t := 0
	for i := 0; i < n; i++ {
		x, y := addrOfBoth(i)
		t += *x + *y
		if isEven(i) {
			t++
		}
	}
	return t
}

// deepKinds: one variable of every slot kind, read, written and captured three to six frames
// below the frame that owns it (function literals and blocks with locals in between).
func deepKinds(x int) func() int {
	b := x%2 == 0
	i8, i16, i32, i64 := int8(x), int16(x*3), int32(x*5), int64(x*7)
	u, u8, u16, u32, u64, up := uint(x+1), uint8(x+2), uint16(x+3), uint32(x+4), uint64(x+5), uintptr(x+6)
	f32, f64 := float32(x)+0.5, float64(x)+0.25
	c64, c128 := complex(float32(x), 1), complex(float64(x), 2)
	s := "s"
	return func() int {
		u64 += 2
		i64 -= 3
		{
			k := int(u64)
			return func() int {
				i8++
				u8 += 2
				t := 0
				for j := 0; j < 2; j++ {
					w := j + 1
					t += func() int {
						u64 += uint64(w)
						i16 += int16(w)
						i32 -= int32(w)
						u += uint(w)
						u16 += 3
						u32 += 5
						up += 7
						f32 += 1
						f64 += 0.5
						c64 += complex(1, 0)
						c128 += complex(0, 1)
						b = !b
						s += "x"
						n := int(i8) + int(i16) + int(i32) + int(i64) + int(u) + int(u8) + int(u16) + int(u32) + int(u64) + int(up)
						n += int(f32*2) + int(f64*4) + int(real(c64)) + int(imag(c64)) + int(real(c128)) + int(imag(c128)) + len(s) + k
						if b {
							n += 1000000
						}
						return n
					}()
				}
				return t
			}()
		}
	}
}

type cell struct {
	a int
	b uint8
}

// compoundOps: every compound assignment operator applied by a closure to captured places
// (slice element, array element, map element, struct field, pointer target).
func compoundOps(x int) func() int {
	sl := []int{x + 40, 7, 3}
	var arr [3]uint16
	arr[0], arr[1], arr[2] = uint16(x+9), 5, 2
	m := map[string]int64{"k": int64(x + 100)}
	st := &cell{x + 20, uint8(x + 3)}
	v := x + 1000
	p := &v
	return func() int {
		sl[0] += 5
		sl[0] -= 2
		sl[0] *= 3
		sl[0] /= 2
		sl[0] %= 1000
		sl[0] &= 0x3ff
		sl[0] |= 0x10
		sl[0] ^= sl[1]
		sl[0] ^= 5
		sl[0] &^= sl[2]
		arr[1] ^= arr[0]
		arr[2] ^= 9
		arr[0] |= arr[2]
		arr[0] &^= 4
		m["k"] ^= 0x55
		m["k"] += int64(sl[1])
		m["k"] &^= 2
		st.a ^= 6
		st.a ^= sl[2]
		st.b ^= 0xf
		*p ^= 0xff
		*p %= 777
		return sl[0] + int(arr[0])*3 + int(arr[1])*5 + int(arr[2])*7 + int(m["k"])*11 + st.a*13 + int(st.b)*17 + *p*19
	}
}

// re-entrant call sites of every arity: an argument expression runs the same call site again
// before the outer call has collected its arguments.
func first(a, b int) int { return a*3 + b }

func r1x2(n int) (int, int) {
	if n <= 0 {
		return 1, 2
	}
	a, b := r1x2(first(r1x2(n-2)) % n)
	return a + n, b * 2
}

func r2x2(n, a int) (int, int) {
	if n <= 0 {
		return a, -a
	}
	x, y := r2x2(n-1, first(r2x2(n-2, a+1)))
	return x + n, y - 1
}

func r3x2(n, a, b int) (int, int) {
	if n <= 0 {
		return a - b, b
	}
	x, y := r3x2(n-1, first(r3x2(n-2, b, a)), b+n)
	return x + 1, y + a
}

func r4x1(n, a, b, c int) int {
	if n <= 0 {
		return a*100 + b*10 + c
	}
	return r4x1(n-1, a+1, r4x1(n-2, b, a, c)%7, c+n) + 1
}

func r4x2(n, a, b, c int) (int, int) {
	if n <= 0 {
		return a - b, c + 1
	}
	x, y := r4x2(n-1, a+1, first(r4x2(n-2, b, a, c)), c+n)
	return x + n, y - a
}

func r5x3(n, a, b, c, d int) (int, int, string) {
	if n <= 0 {
		return a + b, c - d, "z"
	}
	x, y, s := r5x3(n-1, a+1, first(r4x2(n-1, b, a, c)), c+n, second(r5x3(n-2, d, c, b, a)))
	return x + n, y - a, s + "r"
}

func second(a, b int, s string) int { return b - a + len(s) }

var r4x0acc int

func r4x0(n, a, b, c int) {
	if n <= 0 {
		r4x0acc = r4x0acc*3 + a + b*5 + c*7
		return
	}
	r4x0(n-1, a+1, r4x1(n-1, b, a, c)%5, c+n)
	r4x0acc += n
}

func rv(n int, xs ...int) (int, int) {
	if n <= 0 {
		t := 0
		for _, x := range xs {
			t = t*2 + x
		}
		return t, len(xs)
	}
	return rv(n-1, n, first(rv(n-2, xs...)), 4, 5)
}

func reentrant(n int) {
	a1, b1 := r1x2(n)
	a2, b2 := r2x2(n, 3)
	a3, b3 := r3x2(n, 2, 5)
	a4, b4 := r4x2(n, 1, 2, 3)
	a5, b5, s5 := r5x3(n, 1, 2, 3, 4)
	r4x0acc = 0
	r4x0(n, 1, 2, 3)
	av, bv := rv(n, 1, 2)
	hook.Ev("reentrant", n, a1, b1, a2, b2, a3, b3, r4x1(n, 1, 2, 3), a4, b4, a5, b5, s5, r4x0acc, av, bv)
}

// return statements of functions with named results evaluate every operand before any
// result is set.
func swapNamed(a, b int) (x, y int) {
	x, y = a, b
	if a%2 == 0 {
		return y, x
	}
	return x + y, x
}

func rotNamed(a int) (x int, s string, f float64) {
	defer func() {
		x += 100
		s += "!"
	}()
	x, s, f = a, "s", 1.5
	return x + 1, s + string(rune('a'+x%26)), f * float64(x+1)
}

func blankResult(a int) (_ int, y int) {
	y = a * 2
	if a%3 == 0 {
		return
	}
	return a, y + 1
}

func namedResults(n int) {
	b1, b2 := blankResult(n)
	hook.Ev("blank-result", n, b1, b2)
	x, y := swapNamed(n, n+7)
	p, q := swapNamed(n+1, n+9)
	a, b, c := rotNamed(n)
	hook.Ev("named", n, x, y, p, q, a, b, c)
}

// addresses of parameters and of a value receiver held in value slots (string, struct,
// slice, map) escape through results; later calls reuse the frame.
func addrOfParams(s string, c counter, sl []int) (*string, *counter, *[]int) {
	s += "!"
	c.n *= 2
	return &s, &c, &sl
}

func (c counter) Self() *counter {
	return &c
}

var gstrs []*string
var gcnts []*counter
var gsls []*[]int

func paramAddrs(n int) {
	for i := 0; i < 1+n%3; i++ {
		ps, pc, psl := addrOfParams(string(rune('a'+(n+i)%26)), counter{n*10 + i}, []int{n, i})
		gstrs = append(gstrs, ps)
		gcnts = append(gcnts, pc, counter{n + i + 100}.Self())
		gsls = append(gsls, psl)
	}
	out := ""
	for _, p := range gstrs {
		out += *p
	}
	t := 0
	for _, p := range gcnts {
		t = t*3 + p.n
	}
	for _, p := range gsls {
		t += (*p)[0]*7 + (*p)[1]
	}
	hook.Ev("param-addrs", n, out, t%1000003)
}

// blank and unnamed parameters of basic kinds (they have no slot in the frame)
var gblank int

func ignore1(_ int) {
	gblank++
}

func ignore2(_ int, b int) {
	gblank += b
}

func ignore3(float64) int {
	gblank += 3
	return gblank
}

func blankParams(n int) {
	gblank = n
	ignore1(n)
	ignore2(n, n+1)
	k := ignore3(1.5)
	f := func(_ bool) int {
		gblank *= 2
		return gblank
	}
	g := func(_ string, _ uint8) {
		gblank++
	}
	g("x", 2)
	hook.Ev("blank", n, k, f(true), gblank)
}

// unnamed results of a call that never executes return (its panic is recovered by a deferred
// call) are zero, whatever an earlier call left in the recycled frame
func dirty(n int) int {
	a, b, c := n*3+1, n*5+2, n*7+3
	return a + b + c
}

func guardedInt(p bool) int {
	defer func() {
		recover()
	}()
	if p {
		panic("guarded")
	}
	return 7
}

func guardedPair(p bool, q int) (uint8, bool, float64) {
	defer func() {
		recover()
	}()
	k := q * 3
	if p {
		panic(k)
	}
	return 5, true, 2.5
}

func unnamedZero(n int) {
	d := dirty(n)
	g1 := guardedInt(n%2 == 0)
	d += dirty(n + 1)
	u, b, f := guardedPair(n%3 != 0, n)
	g2 := guardedInt(true)
	hook.Ev("unnamed-zero", n, d, g1, u, b, f, g2)
}

func Main() {
	gfuncs, gsetters, gptrs, gsptrs = nil, nil, nil, nil
	gfptrs, gbptrs = nil, nil
	gstrs, gcnts, gsls = nil, nil, nil
	gmap = make(map[int]func(int) int)
	ghook = func() {
		gfuncs = append(gfuncs, func() int {
			return 9
		})
	}
	steps := 6 + hook.Choose(14)
	for s := 0; s < steps; s++ {
		switch hook.Choose(28) {
		case 27:
			unnamedZero(hook.Choose(9))
		case 26:
			blankParams(hook.Choose(9))
		case 25:
			paramAddrs(hook.Choose(12))
		case 24:
			namedResults(hook.Choose(9))
		case 23:
			reentrant(hook.Choose(7))
		case 22:
			gfuncs = append(gfuncs, compoundOps(hook.Choose(40)))
		case 21:
			gfuncs = append(gfuncs, deepKinds(hook.Choose(40)))
		case 19:
			gptrs = append(gptrs, addrInBlock(hook.Choose(20)))
		case 20:
			pa, pf, pb := addrInBlock2(s + hook.Choose(9))
			gptrs = append(gptrs, pa)
			gfptrs = append(gfptrs, pf)
			gbptrs = append(gbptrs, pb)
		case 14:
			gfuncs = append(gfuncs, viaIIFE(hook.Choose(30)))
		case 15:
			hookAppend()
		case 16:
			callHook(s)
		case 17:
			gfuncs = append(gfuncs, onlyBoxed("ab"))
		case 18:
			gfuncs = append(gfuncs, onlyInts(s+1, hook.Choose(5)))
		case 0:
			gfuncs = append(gfuncs, mkCounter(hook.Choose(100)))
		case 1:
			g, set := mkPair(hook.Choose(50))
			gfuncs = append(gfuncs, g)
			gsetters = append(gsetters, set)
		case 2:
			gptrs = append(gptrs, addrOfLocal(hook.Choose(20)))
		case 3:
			gsptrs = append(gsptrs, addrOfStruct(hook.Choose(20)))
		case 4:
			gfuncs = append(gfuncs, loopClosures(1+hook.Choose(3), s)...)
		case 5:
			gfuncs = append(gfuncs, nestedBlocks(hook.Choose(5)))
		case 6:
			gfuncs = recurse(1+hook.Choose(4), gfuncs)
		case 7:
			c := &counter{s}
			gmap[s] = c.Inc
		case 8:
			a, b, f := multi(s)
			hook.Ev("multi", a, b)
			gfuncs = append(gfuncs, f)
		case 9:
			hook.Ev("churn", churn(hook.Choose(9)))
		case 10:
			hook.Ev("churn2", churn2(hook.Choose(6)))
		case 11:
			// use everything that escaped so far
			for i, f := range gfuncs {
				hook.Ev("f", i, f())
			}
			for i, p := range gptrs {
				*p += 1
				hook.Ev("p", i, *p)
			}
		case 12:
			if len(gsetters) > 0 {
				i := hook.Choose(len(gsetters))
				gsetters[i](5)
			}
			for i, p := range gsptrs {
				hook.Ev("sp", i, p.Inc(2), p.Get())
			}
		case 13:
			p, q := addrOfBoth(s)
			gptrs = append(gptrs, p, q)
			hook.Ev("variadic", variadic(s), variadic(s, 1, 2, 3))
		}
	}
	for i, f := range gfuncs {
		hook.Ev("final-f", i, f())
	}
	for i, p := range gptrs {
		hook.Ev("final-p", i, *p)
	}
	for i, p := range gsptrs {
		hook.Ev("final-sp", i, p.n)
	}
	for i, p := range gfptrs {
		hook.Ev("final-fp", i, *p)
	}
	for i, p := range gbptrs {
		hook.Ev("final-bp", i, *p)
	}
	for k := 0; k < steps; k++ {
		if f, ok := gmap[k]; ok {
			hook.Ev("final-m", k, f(1))
		}
	}
}
