// Package c12p holds interpreter-only source (it uses the "break" statement breakpoint,
// which compiled Go rejects): probe programs, interrupt targets and the battery.
package c12p

import _ "embed"

//go:embed prog.gosrc
var Source string
