package c07a

import (
	"errors"
	"fmt"
	"sync"

	"verif/hook"
)

// universal defer/panic/recover call tree: what every frame does is decided by the choice
// list (hook.Choose), the panic points are additionally injected by hook.Fault.

type T struct {
	N int
}

func (t *T) Note(s string) {
	hook.Ev("method", t.N, s)
}

func (t T) Val(s string) {
	hook.Ev("valmethod", t.N, s)
}

type boom struct {
	Code int
	Msg  string
}

var errSentinel = errors.New("sentinel")

func panicValue(k int, depth int) interface{} {
	switch k {
	case 0:
		return "str" + fmt.Sprint(depth)
	case 1:
		return errSentinel
	case 2:
		return depth * 11
	case 3:
		return boom{depth, "boom"}
	case 4:
		return &boom{depth, "pboom"}
	}
	return fmt.Errorf("wrapped %d: %w", depth, errSentinel)
}

// helper is not called directly by a deferred function when used as `defer func(){ helper() }()`:
// its recover must return nil and not stop the panic. Used as `defer helper2(d)` it is the
// deferred function itself and recover works.
func helper(depth int) {
	r := recover()
	hook.Ev("helper-recover", depth, r)
}

func helper2(depth int) {
	r := recover()
	hook.Ev("helper2-recover", depth, r)
	hook.Fault("in-helper2")
}

func showArgs(tag string, b boom, a [3]int, s []int) {
	hook.Ev(tag, b.Code, b.Msg, a[0], a[1], a[2], len(s), s[0])
}

// a function with its own deferred call that returns normally
func withInnerDefer(depth int) (n int) {
	defer func() {
		n += 1000
	}()
	hook.Fault("inner-defer-body")
	return depth
}

// functions whose own deferred call is a builtin / a compiled method and that return normally
func deferBuiltin(depth int) int {
	ch := make(chan int, 1)
	defer close(ch)
	ch <- depth
	return <-ch + 1
}

func deferMethod(depth int) int {
	var mu sync.Mutex
	mu.Lock()
	defer mu.Unlock()
	return depth + 2
}

func showSum(tag string, xs ...int) {
	t := 0
	for _, x := range xs {
		t = t*10 + x
	}
	hook.Ev(tag, t)
}

func nested(depth int) (n int) {
	defer func() {
		r := recover()
		hook.Ev("nested-recover", depth, r)
		n = depth + 100
	}()
	hook.Fault("nested-body")
	if hook.Choose(3) == 0 {
		panic(panicValue(hook.Choose(6), depth))
	}
	return depth
}

func node(depth int) (res int, err error) {
	hook.Ev("enter", depth)
	hook.Fault("enter")
	nd := hook.Choose(4)
	for i := 0; i < nd; i++ {
		switch hook.Choose(18) {
		case 16:
			// the arguments of the deferred call are computed by a function that itself defers
			defer func(v int, w int) {
				hook.Ev("d-arg-defers", depth, v, w)
			}(withInnerDefer(depth), deferMethod(depth))
		case 17:
			defer showSum("d-arg-defers-variadic", withInnerDefer(depth+1), deferBuiltin(depth))
		case 14:
			// after a function whose deferred call was a builtin, an indirect recover is still indirect
			defer func() {
				v := deferBuiltin(depth)
				helper(depth)
				hook.Ev("d-after-builtin-defer", depth, v)
			}()
		case 15:
			defer func() {
				v := deferMethod(depth)
				helper(depth)
				r := recover()
				hook.Ev("d-after-method-defer", depth, v, r)
				if r != nil {
					res = v
				}
			}()
		case 12:
			// arguments of a deferred call are evaluated by the defer statement: later changes
			// of a struct or array variable must not be seen (a slice shares its elements)
			b := boom{depth, "arg"}
			a := [3]int{depth, 1, 2}
			sl := []int{depth, 5}
			defer showArgs("d-struct-args", b, a, sl)
			b.Code, b.Msg = 900+depth, "changed"
			a[1] = 77
			sl[0] = 55
		case 13:
			// the receiver of a deferred method call is evaluated by the defer statement too
			t := T{depth}
			pt := &T{depth * 2}
			defer t.Val("recv-val")
			defer pt.Note("recv-ptr")
			t.N = 3000 + depth
			pt.N = 4000 + depth
		case 10:
			// recover only after another function ran (and finished) its own deferred call
			defer func() {
				v := withInnerDefer(depth)
				r := recover()
				hook.Ev("d-late-recover", depth, v, r)
				if r != nil {
					res = v
				}
			}()
		case 11:
			// the same through a helper with a loop of defers, recover afterwards by a second defer
			defer func() {
				hook.Ev("d-second-recover", depth, recover())
			}()
			defer func() {
				hook.Ev("d-calls-inner", depth, withInnerDefer(depth+1))
			}()
		case 0:
			defer func() {
				hook.Ev("d-plain", depth)
				hook.Fault("in-d-plain")
			}()
		case 1:
			defer func() {
				r := recover()
				hook.Ev("d-recover", depth, r)
				if r != nil {
					res = -depth
					err = nil
				}
				hook.Fault("in-d-recover")
			}()
		case 2:
			t := &T{depth}
			defer t.Note("ptr")
		case 3:
			defer func() {
				r := recover()
				if r != nil {
					hook.Ev("d-repanic", depth, r)
					panic(fmt.Sprint("re:", r))
				}
				hook.Ev("d-norepanic", depth)
			}()
		case 4:
			defer func() {
				helper(depth)
			}()
		case 5:
			defer func(x int) {
				res += x
				hook.Ev("d-args", depth, x, res)
			}(hook.Choose(10) + res)
		case 6:
			defer helper2(depth)
		case 7:
			t := T{depth}
			defer t.Val("val")
		case 8:
			// defers in a loop run in reverse order
			n := 1 + hook.Choose(3)
			for j := 0; j < n; j++ {
				defer func(j int) {
					hook.Ev("d-loop", depth, j)
				}(j)
			}
		case 9:
			// a deferred call that handles its own nested panic
			defer func() {
				v := nested(depth)
				hook.Ev("d-nested", depth, v)
			}()
		}
	}
	hook.Fault("after-defers")
	switch hook.Choose(8) {
	case 0:
		hook.Ev("panic", depth)
		panic(panicValue(hook.Choose(6), depth))
	case 1, 2, 3:
		if depth < 4 {
			r, e := node(depth + 1)
			hook.Ev("child", depth, r, e)
			hook.Fault("after-child")
			res += r
			if e != nil {
				err = e
			}
			if hook.Choose(3) == 0 && depth < 3 {
				r2, _ := node(depth + 2)
				res += r2
			}
		}
	case 4:
		err = fmt.Errorf("e%d", depth)
		return depth, err
	case 5:
		m := map[string]int{"a": depth}
		ch := make(chan int, 1)
		defer func() {
			close(ch)
		}()
		defer func() {
			delete(m, "a")
		}()
		ch <- m["a"]
		res += <-ch
	}
	hook.Fault("before-return")
	return res + depth*10, err
}

func Main() {
	r, e := node(0)
	hook.Ev("result", r, e)
}
