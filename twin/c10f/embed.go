package c10f

import _ "embed"

//go:embed prog.go
var Source string
