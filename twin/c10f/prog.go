package c10f

import "verif/hook"

// every element kind through select: a producer sends with a select send case, a stage
// receives with `case v, ok := <-in` and forwards with a select that also has a receive case
// on a quit channel, the consumer receives with `case v = <-in` (assignment form). One
// producer, one stage, one consumer per run: every task's own event sequence is schedule
// independent.

type point struct {
	X int
	Y string
}

func iface(i int) interface{} {
	switch i % 3 {
	case 0:
		return i
	case 1:
		return "s"
	}
	return point{i, "i"}
}

func prodBool(tok int, n int, out chan bool) {
	hook.Start(tok)
	for i := 0; i < n; i++ {
		x := i%3 == 0
		select {
		case out <- x:
		}
		hook.Y()
	}
	close(out)
	hook.Exit(tok)
}

func stageBool(tok int, in chan bool, out chan bool, quit chan int) {
	hook.Start(tok)
	i := 0
	for {
		var got bool
		more := true
		select {
		case v, ok := <-in:
			got, more = v, ok
		}
		if !more {
			break
		}
		v := got
		i++
		select {
		case out <- v != (i%2 == 0):
		case <-quit:
			hook.Ev("quit")
		}
	}
	close(out)
	hook.Exit(tok)
}

func runBool(n int, k1 int, k2 int) {
	a := make(chan bool, k1)
	b := make(chan bool, k2)
	quit := make(chan int)
	go prodBool(hook.Spawn(), n, a)
	go stageBool(hook.Spawn(), a, b, quit)
	var v bool
	var ok bool
	cnt := 0
	for {
		select {
		case v, ok = <-b:
		}
		if !ok {
			break
		}
		cnt++
		hook.Ev("Bool", v)
	}
	hook.Ev("Bool-end", cnt, v)
}

func prodI8(tok int, n int, out chan int8) {
	hook.Start(tok)
	for i := 0; i < n; i++ {
		x := int8(i * 37)
		select {
		case out <- x:
		}
		hook.Y()
	}
	close(out)
	hook.Exit(tok)
}

func stageI8(tok int, in chan int8, out chan int8, quit chan int) {
	hook.Start(tok)
	i := 0
	for {
		var got int8
		more := true
		select {
		case v, ok := <-in:
			got, more = v, ok
		}
		if !more {
			break
		}
		v := got
		i++
		select {
		case out <- v + 1:
		case <-quit:
			hook.Ev("quit")
		}
	}
	close(out)
	hook.Exit(tok)
}

func runI8(n int, k1 int, k2 int) {
	a := make(chan int8, k1)
	b := make(chan int8, k2)
	quit := make(chan int)
	go prodI8(hook.Spawn(), n, a)
	go stageI8(hook.Spawn(), a, b, quit)
	var v int8
	var ok bool
	cnt := 0
	for {
		select {
		case v, ok = <-b:
		}
		if !ok {
			break
		}
		cnt++
		hook.Ev("I8", v)
	}
	hook.Ev("I8-end", cnt, v)
}

func prodI16(tok int, n int, out chan int16) {
	hook.Start(tok)
	for i := 0; i < n; i++ {
		x := int16(i * 1001)
		select {
		case out <- x:
		}
		hook.Y()
	}
	close(out)
	hook.Exit(tok)
}

func stageI16(tok int, in chan int16, out chan int16, quit chan int) {
	hook.Start(tok)
	i := 0
	for {
		var got int16
		more := true
		select {
		case v, ok := <-in:
			got, more = v, ok
		}
		if !more {
			break
		}
		v := got
		i++
		select {
		case out <- v - 3:
		case <-quit:
			hook.Ev("quit")
		}
	}
	close(out)
	hook.Exit(tok)
}

func runI16(n int, k1 int, k2 int) {
	a := make(chan int16, k1)
	b := make(chan int16, k2)
	quit := make(chan int)
	go prodI16(hook.Spawn(), n, a)
	go stageI16(hook.Spawn(), a, b, quit)
	var v int16
	var ok bool
	cnt := 0
	for {
		select {
		case v, ok = <-b:
		}
		if !ok {
			break
		}
		cnt++
		hook.Ev("I16", v)
	}
	hook.Ev("I16-end", cnt, v)
}

func prodI32(tok int, n int, out chan int32) {
	hook.Start(tok)
	for i := 0; i < n; i++ {
		x := int32(i * 70001)
		select {
		case out <- x:
		}
		hook.Y()
	}
	close(out)
	hook.Exit(tok)
}

func stageI32(tok int, in chan int32, out chan int32, quit chan int) {
	hook.Start(tok)
	i := 0
	for {
		var got int32
		more := true
		select {
		case v, ok := <-in:
			got, more = v, ok
		}
		if !more {
			break
		}
		v := got
		i++
		select {
		case out <- v * 2:
		case <-quit:
			hook.Ev("quit")
		}
	}
	close(out)
	hook.Exit(tok)
}

func runI32(n int, k1 int, k2 int) {
	a := make(chan int32, k1)
	b := make(chan int32, k2)
	quit := make(chan int)
	go prodI32(hook.Spawn(), n, a)
	go stageI32(hook.Spawn(), a, b, quit)
	var v int32
	var ok bool
	cnt := 0
	for {
		select {
		case v, ok = <-b:
		}
		if !ok {
			break
		}
		cnt++
		hook.Ev("I32", v)
	}
	hook.Ev("I32-end", cnt, v)
}

func prodI64(tok int, n int, out chan int64) {
	hook.Start(tok)
	for i := 0; i < n; i++ {
		x := int64(i) * 5000000007
		select {
		case out <- x:
		}
		hook.Y()
	}
	close(out)
	hook.Exit(tok)
}

func stageI64(tok int, in chan int64, out chan int64, quit chan int) {
	hook.Start(tok)
	i := 0
	for {
		var got int64
		more := true
		select {
		case v, ok := <-in:
			got, more = v, ok
		}
		if !more {
			break
		}
		v := got
		i++
		select {
		case out <- v + 5:
		case <-quit:
			hook.Ev("quit")
		}
	}
	close(out)
	hook.Exit(tok)
}

func runI64(n int, k1 int, k2 int) {
	a := make(chan int64, k1)
	b := make(chan int64, k2)
	quit := make(chan int)
	go prodI64(hook.Spawn(), n, a)
	go stageI64(hook.Spawn(), a, b, quit)
	var v int64
	var ok bool
	cnt := 0
	for {
		select {
		case v, ok = <-b:
		}
		if !ok {
			break
		}
		cnt++
		hook.Ev("I64", v)
	}
	hook.Ev("I64-end", cnt, v)
}

func prodU(tok int, n int, out chan uint) {
	hook.Start(tok)
	for i := 0; i < n; i++ {
		x := uint(i * 11)
		select {
		case out <- x:
		}
		hook.Y()
	}
	close(out)
	hook.Exit(tok)
}

func stageU(tok int, in chan uint, out chan uint, quit chan int) {
	hook.Start(tok)
	i := 0
	for {
		var got uint
		more := true
		select {
		case v, ok := <-in:
			got, more = v, ok
		}
		if !more {
			break
		}
		v := got
		i++
		select {
		case out <- v + 9:
		case <-quit:
			hook.Ev("quit")
		}
	}
	close(out)
	hook.Exit(tok)
}

func runU(n int, k1 int, k2 int) {
	a := make(chan uint, k1)
	b := make(chan uint, k2)
	quit := make(chan int)
	go prodU(hook.Spawn(), n, a)
	go stageU(hook.Spawn(), a, b, quit)
	var v uint
	var ok bool
	cnt := 0
	for {
		select {
		case v, ok = <-b:
		}
		if !ok {
			break
		}
		cnt++
		hook.Ev("U", v)
	}
	hook.Ev("U-end", cnt, v)
}

func prodU8(tok int, n int, out chan uint8) {
	hook.Start(tok)
	for i := 0; i < n; i++ {
		x := uint8(i * 53)
		select {
		case out <- x:
		}
		hook.Y()
	}
	close(out)
	hook.Exit(tok)
}

func stageU8(tok int, in chan uint8, out chan uint8, quit chan int) {
	hook.Start(tok)
	i := 0
	for {
		var got uint8
		more := true
		select {
		case v, ok := <-in:
			got, more = v, ok
		}
		if !more {
			break
		}
		v := got
		i++
		select {
		case out <- v + 200:
		case <-quit:
			hook.Ev("quit")
		}
	}
	close(out)
	hook.Exit(tok)
}

func runU8(n int, k1 int, k2 int) {
	a := make(chan uint8, k1)
	b := make(chan uint8, k2)
	quit := make(chan int)
	go prodU8(hook.Spawn(), n, a)
	go stageU8(hook.Spawn(), a, b, quit)
	var v uint8
	var ok bool
	cnt := 0
	for {
		select {
		case v, ok = <-b:
		}
		if !ok {
			break
		}
		cnt++
		hook.Ev("U8", v)
	}
	hook.Ev("U8-end", cnt, v)
}

func prodU32(tok int, n int, out chan uint32) {
	hook.Start(tok)
	for i := 0; i < n; i++ {
		x := uint32(i) * 99991
		select {
		case out <- x:
		}
		hook.Y()
	}
	close(out)
	hook.Exit(tok)
}

func stageU32(tok int, in chan uint32, out chan uint32, quit chan int) {
	hook.Start(tok)
	i := 0
	for {
		var got uint32
		more := true
		select {
		case v, ok := <-in:
			got, more = v, ok
		}
		if !more {
			break
		}
		v := got
		i++
		select {
		case out <- v ^ 7:
		case <-quit:
			hook.Ev("quit")
		}
	}
	close(out)
	hook.Exit(tok)
}

func runU32(n int, k1 int, k2 int) {
	a := make(chan uint32, k1)
	b := make(chan uint32, k2)
	quit := make(chan int)
	go prodU32(hook.Spawn(), n, a)
	go stageU32(hook.Spawn(), a, b, quit)
	var v uint32
	var ok bool
	cnt := 0
	for {
		select {
		case v, ok = <-b:
		}
		if !ok {
			break
		}
		cnt++
		hook.Ev("U32", v)
	}
	hook.Ev("U32-end", cnt, v)
}

func prodU64(tok int, n int, out chan uint64) {
	hook.Start(tok)
	for i := 0; i < n; i++ {
		x := uint64(i) * 18000000000000000
		select {
		case out <- x:
		}
		hook.Y()
	}
	close(out)
	hook.Exit(tok)
}

func stageU64(tok int, in chan uint64, out chan uint64, quit chan int) {
	hook.Start(tok)
	i := 0
	for {
		var got uint64
		more := true
		select {
		case v, ok := <-in:
			got, more = v, ok
		}
		if !more {
			break
		}
		v := got
		i++
		select {
		case out <- v << 1:
		case <-quit:
			hook.Ev("quit")
		}
	}
	close(out)
	hook.Exit(tok)
}

func runU64(n int, k1 int, k2 int) {
	a := make(chan uint64, k1)
	b := make(chan uint64, k2)
	quit := make(chan int)
	go prodU64(hook.Spawn(), n, a)
	go stageU64(hook.Spawn(), a, b, quit)
	var v uint64
	var ok bool
	cnt := 0
	for {
		select {
		case v, ok = <-b:
		}
		if !ok {
			break
		}
		cnt++
		hook.Ev("U64", v)
	}
	hook.Ev("U64-end", cnt, v)
}

func prodF32(tok int, n int, out chan float32) {
	hook.Start(tok)
	for i := 0; i < n; i++ {
		x := float32(i) * 1.5
		select {
		case out <- x:
		}
		hook.Y()
	}
	close(out)
	hook.Exit(tok)
}

func stageF32(tok int, in chan float32, out chan float32, quit chan int) {
	hook.Start(tok)
	i := 0
	for {
		var got float32
		more := true
		select {
		case v, ok := <-in:
			got, more = v, ok
		}
		if !more {
			break
		}
		v := got
		i++
		select {
		case out <- v / 2:
		case <-quit:
			hook.Ev("quit")
		}
	}
	close(out)
	hook.Exit(tok)
}

func runF32(n int, k1 int, k2 int) {
	a := make(chan float32, k1)
	b := make(chan float32, k2)
	quit := make(chan int)
	go prodF32(hook.Spawn(), n, a)
	go stageF32(hook.Spawn(), a, b, quit)
	var v float32
	var ok bool
	cnt := 0
	for {
		select {
		case v, ok = <-b:
		}
		if !ok {
			break
		}
		cnt++
		hook.Ev("F32", v)
	}
	hook.Ev("F32-end", cnt, v)
}

func prodF64(tok int, n int, out chan float64) {
	hook.Start(tok)
	for i := 0; i < n; i++ {
		x := float64(i) / 8
		select {
		case out <- x:
		}
		hook.Y()
	}
	close(out)
	hook.Exit(tok)
}

func stageF64(tok int, in chan float64, out chan float64, quit chan int) {
	hook.Start(tok)
	i := 0
	for {
		var got float64
		more := true
		select {
		case v, ok := <-in:
			got, more = v, ok
		}
		if !more {
			break
		}
		v := got
		i++
		select {
		case out <- v + 0.25:
		case <-quit:
			hook.Ev("quit")
		}
	}
	close(out)
	hook.Exit(tok)
}

func runF64(n int, k1 int, k2 int) {
	a := make(chan float64, k1)
	b := make(chan float64, k2)
	quit := make(chan int)
	go prodF64(hook.Spawn(), n, a)
	go stageF64(hook.Spawn(), a, b, quit)
	var v float64
	var ok bool
	cnt := 0
	for {
		select {
		case v, ok = <-b:
		}
		if !ok {
			break
		}
		cnt++
		hook.Ev("F64", v)
	}
	hook.Ev("F64-end", cnt, v)
}

func prodC64(tok int, n int, out chan complex64) {
	hook.Start(tok)
	for i := 0; i < n; i++ {
		x := complex(float32(i), float32(-i))
		select {
		case out <- x:
		}
		hook.Y()
	}
	close(out)
	hook.Exit(tok)
}

func stageC64(tok int, in chan complex64, out chan complex64, quit chan int) {
	hook.Start(tok)
	i := 0
	for {
		var got complex64
		more := true
		select {
		case v, ok := <-in:
			got, more = v, ok
		}
		if !more {
			break
		}
		v := got
		i++
		select {
		case out <- v * 2:
		case <-quit:
			hook.Ev("quit")
		}
	}
	close(out)
	hook.Exit(tok)
}

func runC64(n int, k1 int, k2 int) {
	a := make(chan complex64, k1)
	b := make(chan complex64, k2)
	quit := make(chan int)
	go prodC64(hook.Spawn(), n, a)
	go stageC64(hook.Spawn(), a, b, quit)
	var v complex64
	var ok bool
	cnt := 0
	for {
		select {
		case v, ok = <-b:
		}
		if !ok {
			break
		}
		cnt++
		hook.Ev("C64", v)
	}
	hook.Ev("C64-end", cnt, v)
}

func prodC128(tok int, n int, out chan complex128) {
	hook.Start(tok)
	for i := 0; i < n; i++ {
		x := complex(float64(i)/2, float64(i))
		select {
		case out <- x:
		}
		hook.Y()
	}
	close(out)
	hook.Exit(tok)
}

func stageC128(tok int, in chan complex128, out chan complex128, quit chan int) {
	hook.Start(tok)
	i := 0
	for {
		var got complex128
		more := true
		select {
		case v, ok := <-in:
			got, more = v, ok
		}
		if !more {
			break
		}
		v := got
		i++
		select {
		case out <- v + 1i:
		case <-quit:
			hook.Ev("quit")
		}
	}
	close(out)
	hook.Exit(tok)
}

func runC128(n int, k1 int, k2 int) {
	a := make(chan complex128, k1)
	b := make(chan complex128, k2)
	quit := make(chan int)
	go prodC128(hook.Spawn(), n, a)
	go stageC128(hook.Spawn(), a, b, quit)
	var v complex128
	var ok bool
	cnt := 0
	for {
		select {
		case v, ok = <-b:
		}
		if !ok {
			break
		}
		cnt++
		hook.Ev("C128", v)
	}
	hook.Ev("C128-end", cnt, v)
}

func prodStr(tok int, n int, out chan string) {
	hook.Start(tok)
	for i := 0; i < n; i++ {
		x := string(rune(65+i)) + "s"
		select {
		case out <- x:
		}
		hook.Y()
	}
	close(out)
	hook.Exit(tok)
}

func stageStr(tok int, in chan string, out chan string, quit chan int) {
	hook.Start(tok)
	i := 0
	for {
		var got string
		more := true
		select {
		case v, ok := <-in:
			got, more = v, ok
		}
		if !more {
			break
		}
		v := got
		i++
		select {
		case out <- v + "!":
		case <-quit:
			hook.Ev("quit")
		}
	}
	close(out)
	hook.Exit(tok)
}

func runStr(n int, k1 int, k2 int) {
	a := make(chan string, k1)
	b := make(chan string, k2)
	quit := make(chan int)
	go prodStr(hook.Spawn(), n, a)
	go stageStr(hook.Spawn(), a, b, quit)
	var v string
	var ok bool
	cnt := 0
	for {
		select {
		case v, ok = <-b:
		}
		if !ok {
			break
		}
		cnt++
		hook.Ev("Str", v)
	}
	hook.Ev("Str-end", cnt, v)
}

func prodPt(tok int, n int, out chan point) {
	hook.Start(tok)
	for i := 0; i < n; i++ {
		x := point{i, "p"}
		select {
		case out <- x:
		}
		hook.Y()
	}
	close(out)
	hook.Exit(tok)
}

func stagePt(tok int, in chan point, out chan point, quit chan int) {
	hook.Start(tok)
	i := 0
	for {
		var got point
		more := true
		select {
		case v, ok := <-in:
			got, more = v, ok
		}
		if !more {
			break
		}
		v := got
		i++
		select {
		case out <- point{v.X + 1, v.Y}:
		case <-quit:
			hook.Ev("quit")
		}
	}
	close(out)
	hook.Exit(tok)
}

func runPt(n int, k1 int, k2 int) {
	a := make(chan point, k1)
	b := make(chan point, k2)
	quit := make(chan int)
	go prodPt(hook.Spawn(), n, a)
	go stagePt(hook.Spawn(), a, b, quit)
	var v point
	var ok bool
	cnt := 0
	for {
		select {
		case v, ok = <-b:
		}
		if !ok {
			break
		}
		cnt++
		hook.Ev("Pt", v)
	}
	hook.Ev("Pt-end", cnt, v)
}

func prodIf(tok int, n int, out chan interface{}) {
	hook.Start(tok)
	for i := 0; i < n; i++ {
		x := iface(i)
		select {
		case out <- x:
		}
		hook.Y()
	}
	close(out)
	hook.Exit(tok)
}

func stageIf(tok int, in chan interface{}, out chan interface{}, quit chan int) {
	hook.Start(tok)
	i := 0
	for {
		var got interface{}
		more := true
		select {
		case v, ok := <-in:
			got, more = v, ok
		}
		if !more {
			break
		}
		v := got
		i++
		select {
		case out <- v:
		case <-quit:
			hook.Ev("quit")
		}
	}
	close(out)
	hook.Exit(tok)
}

func runIf(n int, k1 int, k2 int) {
	a := make(chan interface{}, k1)
	b := make(chan interface{}, k2)
	quit := make(chan int)
	go prodIf(hook.Spawn(), n, a)
	go stageIf(hook.Spawn(), a, b, quit)
	var v interface{}
	var ok bool
	cnt := 0
	for {
		select {
		case v, ok = <-b:
		}
		if !ok {
			break
		}
		cnt++
		hook.Ev("If", v)
	}
	hook.Ev("If-end", cnt, v)
}

func prodPtr(tok int, n int, out chan *point) {
	hook.Start(tok)
	for i := 0; i < n; i++ {
		x := &point{i * 2, "q"}
		select {
		case out <- x:
		}
		hook.Y()
	}
	close(out)
	hook.Exit(tok)
}

func stagePtr(tok int, in chan *point, out chan *point, quit chan int) {
	hook.Start(tok)
	i := 0
	for {
		var got *point
		more := true
		select {
		case v, ok := <-in:
			got, more = v, ok
		}
		if !more {
			break
		}
		v := got
		i++
		select {
		case out <- v:
		case <-quit:
			hook.Ev("quit")
		}
	}
	close(out)
	hook.Exit(tok)
}

func runPtr(n int, k1 int, k2 int) {
	a := make(chan *point, k1)
	b := make(chan *point, k2)
	quit := make(chan int)
	go prodPtr(hook.Spawn(), n, a)
	go stagePtr(hook.Spawn(), a, b, quit)
	var v *point
	var ok bool
	cnt := 0
	for {
		select {
		case v, ok = <-b:
		}
		if !ok {
			break
		}
		cnt++
		hook.Ev("Ptr", v)
	}
	hook.Ev("Ptr-end", cnt, v)
}

func prodSl(tok int, n int, out chan []int) {
	hook.Start(tok)
	for i := 0; i < n; i++ {
		x := []int{i, i + 1}
		select {
		case out <- x:
		}
		hook.Y()
	}
	close(out)
	hook.Exit(tok)
}

func stageSl(tok int, in chan []int, out chan []int, quit chan int) {
	hook.Start(tok)
	i := 0
	for {
		var got []int
		more := true
		select {
		case v, ok := <-in:
			got, more = v, ok
		}
		if !more {
			break
		}
		v := got
		i++
		select {
		case out <- append(v, len(v)):
		case <-quit:
			hook.Ev("quit")
		}
	}
	close(out)
	hook.Exit(tok)
}

func runSl(n int, k1 int, k2 int) {
	a := make(chan []int, k1)
	b := make(chan []int, k2)
	quit := make(chan int)
	go prodSl(hook.Spawn(), n, a)
	go stageSl(hook.Spawn(), a, b, quit)
	var v []int
	var ok bool
	cnt := 0
	for {
		select {
		case v, ok = <-b:
		}
		if !ok {
			break
		}
		cnt++
		hook.Ev("Sl", v)
	}
	hook.Ev("Sl-end", cnt, v)
}

func Main() {
	n := 1 + hook.Choose(4)
	k1 := hook.Choose(3)
	k2 := hook.Choose(3)
	switch hook.Choose(18) {
	case 0:
		runBool(n, k1, k2)
	case 1:
		runI8(n, k1, k2)
	case 2:
		runI16(n, k1, k2)
	case 3:
		runI32(n, k1, k2)
	case 4:
		runI64(n, k1, k2)
	case 5:
		runU(n, k1, k2)
	case 6:
		runU8(n, k1, k2)
	case 7:
		runU32(n, k1, k2)
	case 8:
		runU64(n, k1, k2)
	case 9:
		runF32(n, k1, k2)
	case 10:
		runF64(n, k1, k2)
	case 11:
		runC64(n, k1, k2)
	case 12:
		runC128(n, k1, k2)
	case 13:
		runStr(n, k1, k2)
	case 14:
		runPt(n, k1, k2)
	case 15:
		runIf(n, k1, k2)
	case 16:
		runPtr(n, k1, k2)
	case 17:
		runSl(n, k1, k2)
	}
}
