package c11a

import (
	"errors"
	"fmt"
	"io"
	"sort"
	"strings"
	"sync"
	"time"

	"verif/hook"
)

// interpreted functions and types handed to compiled standard-library entry points, invoked
// concurrently from goroutines started by compiled code.

type byLen []string

func (b byLen) Len() int           { return len(b) }
func (b byLen) Less(i, j int) bool { return len(b[i]) < len(b[j]) || (len(b[i]) == len(b[j]) && b[i] < b[j]) }
func (b byLen) Swap(i, j int)      { b[i], b[j] = b[j], b[i] }

type temp struct {
	Deg int
}

func (t temp) String() string { return fmt.Sprintf("%d°", t.Deg) }

type myErr struct {
	Code int
}

func (e *myErr) Error() string { return "E" + fmt.Sprint(e.Code) }

type countReader struct {
	n   int
	max int
}

func (c *countReader) Read(p []byte) (int, error) {
	if c.n >= c.max {
		return 0, io.EOF
	}
	k := 0
	for k < len(p) && k < 3 && c.n < c.max {
		p[k] = byte('a' + c.n%26)
		c.n++
		k++
	}
	return k, nil
}

func rot(k int) func(rune) rune {
	return func(r rune) rune {
		if r >= 'a' && r <= 'z' {
			return 'a' + (r-'a'+rune(k))%26
		}
		return r
	}
}

func job(i int) {
	switch hook.Choose(7) {
	case 0:
		xs := []int{5, 2, 8, 1, 9, 3}
		xs = append(xs, i, 7-i)
		sort.Slice(xs, func(a, b int) bool {
			hook.Y()
			return xs[a] < xs[b]
		})
		hook.Ev("sort.Slice", i, fmt.Sprint(xs))
	case 1:
		b := byLen{"ccc", "a", "bb", "dddd", "ab", strings.Repeat("x", i+1)}
		sort.Sort(b)
		hook.Ev("sort.Sort", i, strings.Join(b, ","))
	case 2:
		s := strings.Map(rot(i+1), "hello, world")
		hook.Ev("strings.Map", i, s)
	case 3:
		var st fmt.Stringer = temp{20 + i}
		var err error = &myErr{40 + i}
		s := hook.SprintStringer(st)
		s2 := hook.SprintError(err)
		hook.Ev("fmt", i, s, s2, errors.Unwrap(err) == nil, errors.Is(err, err))
	case 4:
		r := &countReader{max: 5 + i}
		data, err := io.ReadAll(r)
		hook.Ev("io.ReadAll", i, string(data), err == nil)
	case 5:
		var once sync.Once
		n := 0
		for k := 0; k < 3; k++ {
			once.Do(func() {
				hook.Y()
				n += i + 1
			})
		}
		hook.Ev("sync.Once", i, n)
	case 6:
		done := make(chan int, 1)
		d := time.Duration(i+1) * time.Millisecond
		hook.AfterFunc(d, func() {
			done <- i * 3
		})
		v := <-done
		hook.Ev("time.AfterFunc", i, v)
	}
}

func Main() {
	rounds := 1 + hook.Choose(2)
	for r := 0; r < rounds; r++ {
		n := 1 + hook.Choose(3)
		hook.Par(n, job)
		hook.Ev("round", r, n)
	}
}
