package c11a

import (
	"container/heap"
	"errors"
	"fmt"
	"io"
	"sort"
	"strings"
	"sync"
	"time"

	"verif/hook"
)

// interpreted functions and types handed to compiled standard-library entry points, invoked
// concurrently from goroutines started by compiled code.

type byLen []string

func (b byLen) Len() int { return len(b) }
func (b byLen) Less(i, j int) bool {
	return len(b[i]) < len(b[j]) || (len(b[i]) == len(b[j]) && b[i] < b[j])
}
func (b byLen) Swap(i, j int) { b[i], b[j] = b[j], b[i] }

type temp struct {
	Deg int
}

func (t temp) String() string { return fmt.Sprintf("%d°", t.Deg) }

type myErr struct {
	Code int
}

func (e *myErr) Error() string { return "E" + fmt.Sprint(e.Code) }

type countReader struct {
	n   int
	max int
}

func (c *countReader) Read(p []byte) (int, error) {
	if c.n >= c.max {
		return 0, io.EOF
	}
	k := 0
	for k < len(p) && k < 3 && c.n < c.max {
		p[k] = byte('a' + c.n%26)
		c.n++
		k++
	}
	return k, nil
}

func rot(k int) func(rune) rune {
	return func(r rune) rune {
		if r >= 'a' && r <= 'z' {
			return 'a' + (r-'a'+rune(k))%26
		}
		return r
	}
}

type intHeap []int

func (h intHeap) Len() int           { return len(h) }
func (h intHeap) Less(i, j int) bool { return h[i] < h[j] }
func (h intHeap) Swap(i, j int)      { h[i], h[j] = h[j], h[i] }
func (h *intHeap) Push(x interface{}) {
	*h = append(*h, x.(int))
}
func (h *intHeap) Pop() interface{} {
	old := *h
	n := len(old)
	x := old[n-1]
	*h = old[0 : n-1]
	return x
}

type upperWriter struct {
	buf []byte
}

func (w *upperWriter) Write(p []byte) (int, error) {
	for _, c := range p {
		if c >= 'a' && c <= 'z' {
			c -= 32
		}
		w.buf = append(w.buf, c)
	}
	return len(p), nil
}

type holder struct {
	S fmt.Stringer
	R io.Reader
}

func mkWriter(i int) (*upperWriter, string) {
	return &upperWriter{}, "job " + string(rune('a'+i%26))
}

func mkCopy(i int) (*upperWriter, *countReader, int64) {
	return &upperWriter{}, &countReader{max: 9 + i}, int64(4 + i)
}

func tag3(n int) string {
	return "t" + string(rune('a'+n%26))
}

func yieldThen(n int) int {
	hook.Y()
	return n * 10
}

// walk3 re-enters its own call site while the arguments of the outer call are being evaluated
func walk3(n int) int {
	if n <= 0 {
		return 0
	}
	hook.Rec3(n, tag3(n), walk3(n-1)+yieldThen(n))
	return n
}

func job(i int) {
	switch hook.Choose(16) {
	case 15:
		// a compiled function of three parameters and no result: its arguments belong to one
		// activation of the call site, also when another activation (re-entrant, or of another
		// goroutine at the yield inside the argument list) overlaps
		hook.Rec3(i, tag3(i), yieldThen(i))
		walk3(2 + i%3)
	case 14:
		// f(g()): the values returned by g are converted one by one to the parameters of the
		// compiled function (program types to compiled interfaces, the last one as is)
		n, err := io.WriteString(mkWriter(i))
		m, err2 := io.CopyN(mkCopy(i))
		hook.Ev("multi-value", i, n, err == nil, m, err2 == nil)
	case 13:
		// values of program types stored through interface-typed places of every kind,
		// then used by compiled code
		var xs []fmt.Stringer
		for k := 0; k < 3; k++ {
			xs = append(xs, temp{k + i})
		}
		xs = append(xs, temp{70}, temp{71 + i})
		m := map[string]fmt.Stringer{}
		m["a"] = temp{30 + i}
		var arr [2]error
		arr[1] = &myErr{i}
		var h holder
		h.S = temp{50 + i}
		h.R = &countReader{max: 3 + i}
		p := new(fmt.Stringer)
		*p = temp{60 + i}
		var a, b fmt.Stringer
		t2 := temp{2 + i}
		a, b = temp{1}, t2
		var c fmt.Stringer
		c, _ = t2, i
		errs := make([]error, 2)
		errs[0], a = &myErr{9}, b
		out := ""
		for _, x := range xs {
			hook.Y()
			out += hook.SprintStringer(x) + ","
		}
		data, err := io.ReadAll(h.R)
		hook.Ev("containers", i, out, hook.SprintStringer(m["a"]), hook.SprintError(arr[1]), hook.SprintStringer(h.S),
			hook.SprintStringer(*p), hook.SprintStringer(a), hook.SprintStringer(b), hook.SprintStringer(c), hook.SprintError(errs[0]), string(data), err == nil)
	case 7:
		s := strings.FieldsFunc("a1b22c333d", func(r rune) bool {
			hook.Y()
			return r >= '0' && r <= '9'
		})
		k := strings.IndexFunc("hello world", func(r rune) bool {
			return r == rune('l'+i)
		})
		hook.Ev("strings.FieldsFunc", i, strings.Join(s, "|"), k)
	case 8:
		b := byLen{"ccc", "a", "bb", "aa", "dddd", "ab", "b"}
		sort.Stable(b)
		n := sort.Search(100, func(k int) bool {
			return k*k >= 50+i
		})
		hook.Ev("sort.Stable", i, strings.Join(b, ","), n)
	case 9:
		h := &intHeap{5, 2, 8}
		heap.Init(h)
		heap.Push(h, 3+i)
		heap.Push(h, 1)
		out := ""
		for h.Len() > 0 {
			out += fmt.Sprint(heap.Pop(h), " ")
		}
		hook.Ev("container/heap", i, out)
	case 10:
		var m sync.Map
		for k := 0; k < 4; k++ {
			m.Store(k, k*k+i)
		}
		sum := 0
		m.Range(func(k, v interface{}) bool {
			sum += k.(int)*100 + v.(int)
			return true
		})
		hook.Ev("sync.Map.Range", i, sum)
	case 11:
		w := &upperWriter{}
		n, err := fmt.Fprintf(w, "job %d of %s", i, "many")
		io.WriteString(w, "!")
		hook.Ev("io.Writer", i, string(w.buf), n, err == nil)
	case 12:
		p := sync.Pool{New: func() interface{} {
			return &temp{100 + i}
		}}
		t := p.Get().(*temp)
		hook.Ev("sync.Pool", i, t.Deg)
	case 0:
		xs := []int{5, 2, 8, 1, 9, 3}
		xs = append(xs, i, 7-i)
		sort.Slice(xs, func(a, b int) bool {
			hook.Y()
			return xs[a] < xs[b]
		})
		hook.Ev("sort.Slice", i, fmt.Sprint(xs))
	case 1:
		b := byLen{"ccc", "a", "bb", "dddd", "ab", strings.Repeat("x", i+1)}
		sort.Sort(b)
		hook.Ev("sort.Sort", i, strings.Join(b, ","))
	case 2:
		s := strings.Map(rot(i+1), "hello, world")
		hook.Ev("strings.Map", i, s)
	case 3:
		var st fmt.Stringer = temp{20 + i}
		var err error = &myErr{40 + i}
		s := hook.SprintStringer(st)
		s2 := hook.SprintError(err)
		hook.Ev("fmt", i, s, s2, errors.Unwrap(err) == nil, errors.Is(err, err))
	case 4:
		r := &countReader{max: 5 + i}
		data, err := io.ReadAll(r)
		hook.Ev("io.ReadAll", i, string(data), err == nil)
	case 5:
		var once sync.Once
		n := 0
		for k := 0; k < 3; k++ {
			once.Do(func() {
				hook.Y()
				n += i + 1
			})
		}
		hook.Ev("sync.Once", i, n)
	case 6:
		done := make(chan int, 1)
		d := time.Duration(i+1) * time.Millisecond
		hook.AfterFunc(d, func() {
			done <- i * 3
		})
		v := <-done
		hook.Ev("time.AfterFunc", i, v)
	}
}

// warm leaves a few released frames in the pool of the goroutine that runs Main: whatever a
// new runtime record is created from must not include them
func warm(k int) int {
	if k == 0 {
		return 1
	}
	x := k * 2
	return warm(k-1) + x
}

func Main() {
	hook.Ev("warm", warm(2+hook.Choose(3)))
	rounds := 1 + hook.Choose(2)
	for r := 0; r < rounds; r++ {
		n := 1 + hook.Choose(3)
		hook.Par(n, job)
		hook.Ev("round", r, n)
	}
}
