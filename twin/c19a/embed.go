package c19a

import _ "embed"

//go:embed prog.go
var Source string
