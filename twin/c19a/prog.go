package c19a

import "verif/hook"

// programs run under the debugger: nested calls, loops, recursion, deferred calls,
// breakpoints (`_ = "break"` is a breakpoint for the interpreter and a no-op for Go).

func leaf(x int) int {
	y := x + 1
	return y * 2
}

func mid(x int) int {
	a := leaf(x)
	if x == 1 {
		_ = "break"
	}
	b := leaf(a)
	return a + b
}

func loop(n int) int {
	s := 0
	for i := 0; i < n; i++ {
		s += mid(i)
		if i == 2 {
			_ = "break"
		}
	}
	return s
}

func rec(n int) int {
	if n == 0 {
		_ = "break"
		return 1
	}
	return n * rec(n-1)
}

func withDefer(x int) (r int) {
	defer func() {
		r += leaf(x)
	}()
	defer hook.Ev("deferred", x)
	r = mid(x)
	return r
}

func sel(n int) int {
	c := make(chan int, 1)
	t := 0
	for i := 0; i < n; i++ {
		if i%2 == 0 {
			select {
			case c <- i:
				t++
			default:
				t += 100
			}
		} else {
			select {
			case v := <-c:
				t += v
			default:
				t += 1000
			}
		}
	}
	return t
}

// a breakpoint reached after the function has executed many statements
// (the executor is then in its second, unrolled loop)
func longLoop(n int) int {
	s := 0
	for i := 0; i < n; i++ {
		s += i
		if i == 37 {
			_ = "break"
		}
	}
	s += leaf(n)
	return s
}

func withRecover(x int) (r int) {
	defer func() {
		if e := recover(); e != nil {
			r = -x
		}
	}()
	if x > 0 {
		panic("recovered-by-program")
	}
	return x
}

var tail int

// functions whose LAST statement is a defer (directly, or inside a trailing if)
func tailDefer(x int) {
	tail += x
	defer func() {
		tail += 100
	}()
}

func tailDeferIf(x int) {
	tail += x * 2
	if x >= 0 {
		defer hook.Ev("tail-if", x)
	}
}

func Main() {
	n := 1 + hook.Choose(3)
	tail = 0
	for i := 0; i < n; i++ {
		switch hook.Choose(8) {
		case 7:
			tailDefer(i + 1)
			tailDeferIf(i)
			hook.Ev("tail", tail)
		case 6:
			hook.Ev("long", longLoop(38+hook.Choose(20)))
		case 0:
			hook.Ev("loop", loop(1+hook.Choose(3)))
		case 1:
			hook.Ev("rec", rec(hook.Choose(4)))
		case 2:
			hook.Ev("defer", withDefer(hook.Choose(3)))
		case 3:
			hook.Ev("sel", sel(1+hook.Choose(4)))
		case 4:
			hook.Ev("mid", mid(hook.Choose(3)))
		case 5:
			if hook.Choose(4) == 0 {
				hook.Ev("recover", withRecover(1))
			} else {
				hook.Ev("leaf", leaf(i))
			}
		}
	}
	hook.Ev("end")
}
