package c10c

import "verif/hook"

// op soup: racing senders/receivers and selects over a few channels; every communication is
// declared (hook.Pre) and reported (hook.Post) so that the history can be replayed on the
// channel reference model. chans[0], chans[1]: anybody sends and receives, never closed.
// chans[2]: only Main sends, and closes it; the others only receive from it.

const NCH = 3

var chans [NCH]chan int
var nilch chan int

func task(tok int, id int, nops int) {
	hook.Start(tok)
	seq := 0
	var v int
	var ok bool
	for i := 0; i < nops; i++ {
		c := hook.Choose(2)
		d := 1 - c
		seq++
		x := id*1000 + seq
		switch hook.Choose(10) {
		case 0, 1:
			hook.Pre("send", c, x)
			chans[c] <- x
			hook.Post("send", c)
		case 2:
			hook.Pre("recv", c)
			v, ok = <-chans[c]
			hook.Post("recv", c, v, ok)
		case 3:
			hook.Pre("recv", 2)
			w, ok2 := <-chans[2]
			hook.Post("recv", 2, w, ok2)
		case 4:
			hook.Pre("sel", "r", c, "r", 2)
			select {
			case w, ok2 := <-chans[c]:
				hook.Post("sel", 0, w, ok2)
			case w, ok2 := <-chans[2]:
				hook.Post("sel", 1, w, ok2)
			}
		case 5:
			hook.Pre("sel", "r", c, "s", d, x, "d")
			select {
			case v, ok = <-chans[c]:
				hook.Post("sel", 0, v, ok)
			case chans[d] <- x:
				hook.Post("sel", 1)
			default:
				hook.Post("sel", 2)
			}
		case 6:
			hook.Pre("sel", "s", c, x, "r", d, "r", -1)
			select {
			case chans[c] <- x:
				hook.Post("sel", 0)
			case w := <-chans[d]:
				hook.Post("sel", 1, w, "_")
			case <-nilch:
				hook.Post("sel", 2, "_", "_")
			}
		case 7:
			hook.Pre("sel", "r", 2, "d")
			select {
			case v, ok = <-chans[2]:
				hook.Post("sel", 0, v, ok)
			default:
				hook.Post("sel", 1)
			}
		case 8:
			hook.Pre("sel", "r", 0, "r", 1, "r", 2)
			select {
			case <-chans[0]:
				hook.Post("sel", 0, "_", "_")
			case v = <-chans[1]:
				hook.Post("sel", 1, v, "_")
			case v, ok = <-chans[2]:
				hook.Post("sel", 2, v, ok)
			}
		case 9:
			hook.Pre("sel", "s", 0, x, "s", 1, x)
			select {
			case chans[0] <- x:
				hook.Post("sel", 0)
			case chans[1] <- x:
				hook.Post("sel", 1)
			}
		}
	}
	hook.Ev("end", id)
	hook.Exit(tok)
}

func Main() {
	nt := 2 + hook.Choose(3)
	for c := 0; c < NCH; c++ {
		k := hook.Choose(3)
		chans[c] = make(chan int, k)
		hook.Ev("chan", c, k, 0)
	}
	for i := 0; i < nt; i++ {
		go task(hook.Spawn(), i+1, 2+hook.Choose(6))
	}
	n := hook.Choose(4)
	for i := 0; i < n; i++ {
		x := 9000 + i
		if hook.Choose(2) == 0 {
			hook.Pre("send", 2, x)
			chans[2] <- x
			hook.Post("send", 2)
		} else {
			hook.Pre("sel", "s", 2, x, "r", 0, "d")
			select {
			case chans[2] <- x:
				hook.Post("sel", 0)
			case w, ok := <-chans[0]:
				hook.Post("sel", 1, w, ok)
			default:
				hook.Post("sel", 2)
			}
		}
	}
	hook.Pre("close", 2)
	close(chans[2])
	hook.Post("close", 2)
	m := hook.Choose(3)
	for i := 0; i < m; i++ {
		c := hook.Choose(2)
		hook.Pre("recv", c)
		w, ok := <-chans[c]
		hook.Post("recv", c, w, ok)
	}
	hook.Ev("end", 0)
}
