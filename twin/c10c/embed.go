package c10c

import _ "embed"

//go:embed prog.go
var Source string
