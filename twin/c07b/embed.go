package c07b

import _ "embed"

//go:embed prog.go
var Source string
