package c07b

import "verif/hook"

// deferred calls of builtins (Go permits close, delete, copy, panic, print, println, recover
// in statement context). One function per builtin, loaded one by one in the interpreter.

//c07b:section DeferClose
func DeferClose() {
	ch := make(chan int, 1)
	f := func() {
		defer close(ch)
		ch <- 7
	}
	f()
	v, ok := <-ch
	_, ok2 := <-ch
	hook.Ev("close", v, ok, ok2)
}

//c07b:section DeferDelete
func DeferDelete() {
	m := map[string]int{"a": 1, "b": 2}
	f := func() {
		k := "a"
		defer delete(m, k)
		k = "b"
		hook.Ev("in", len(m))
	}
	f()
	_, hasA := m["a"]
	_, hasB := m["b"]
	hook.Ev("delete", len(m), hasA, hasB)
}

//c07b:section DeferCopy
func DeferCopy() {
	s := []int{1, 2, 3}
	f := func() {
		src := []int{9, 8}
		defer copy(s, src)
		src = []int{5, 5}
		s[2] = 4
	}
	f()
	hook.Ev("copy", s[0], s[1], s[2])
}

//c07b:section DeferPanic
func DeferPanic() {
	f := func() (r interface{}) {
		defer func() {
			r = recover()
		}()
		defer panic("deferred-panic")
		return 1
	}
	hook.Ev("panic", f())
}

//c07b:section DeferRecover
func DeferRecover() {
	f := func() (r int) {
		defer func() {
			hook.Ev("after", r)
		}()
		defer recover()
		panic("swallowed?")
	}
	defer func() {
		hook.Ev("outer", recover())
	}()
	hook.Ev("recover", f())
}
