package c33a

import (
	"sync"

	"verif/hook"
)

// short-lived goroutines entering interpreted code in every way the interpreter supports:
// go statement on a named function, go statement on a function literal, a goroutine started
// by compiled code that calls an interpreted closure. At most 3 goroutines are alive at a
// time (main + 2), identities are reused round after round.

func leaf(x int) int {
	return x*2 + 1
}

func mid(x int, depth int) int {
	if depth == 0 {
		return leaf(x)
	}
	hook.Y()
	a := x + depth
	r := mid(a, depth-1)
	return r + a
}

func work(id int) int {
	s := 0
	n := 1 + hook.Choose(3)
	for i := 0; i < n; i++ {
		s += mid(id*10+i, hook.Choose(4))
		if hook.Choose(3) == 0 {
			f := func(y int) int { return mid(y+s, 1) }
			s = f(i)
		}
	}
	return s
}

func grandchild(tok int, id int, done chan int) {
	hook.Start(tok)
	done <- work(id)
	hook.Exit(tok)
}

func named(tok int, id int, wg *sync.WaitGroup) {
	hook.Start(tok)
	a := work(id)
	if hook.Choose(3) == 0 {
		// a goroutine started by a goroutine; the parent goes on calling package-level
		// functions after the child has exited
		done := make(chan int)
		go grandchild(hook.Spawn(), id+50, done)
		b := <-done
		hook.Y()
		hook.Ev("named-nested", id, a, b, work(id+1), mid(id, 2))
	} else {
		hook.Ev("named", id, a)
	}
	wg.Done()
	hook.Exit(tok)
}

// handlers: closures that call recover(), created by goroutines that exit; later goroutines
// (which may reuse the identity of the creator) run them as deferred functions of a panic
var handlers [64]func()
var hmu sync.Mutex

func register(tok int, id int, wg *sync.WaitGroup) {
	hook.Start(tok)
	me := id
	h := func() {
		r := recover()
		hook.Ev("handler", me, r)
	}
	hook.Lock(&hmu)
	handlers[id%64] = h
	hook.Unlock(&hmu)
	wg.Done()
	hook.Exit(tok)
}

func usePanic(h func(), id int) (escaped bool) {
	defer func() {
		if r := recover(); r != nil {
			escaped = true
		}
	}()
	func() {
		defer h()
		panic(id)
	}()
	return false
}

func useHandler(tok int, id int, h func(), wg *sync.WaitGroup) {
	hook.Start(tok)
	hook.Ev("use-handler", id, usePanic(h, id), work(id))
	wg.Done()
	hook.Exit(tok)
}

func Main() {
	rounds := 1 + hook.Choose(4)
	id := 0
	var regOld, regNew []int // ids of the register jobs of earlier rounds / of this round
	for r := 0; r < rounds; r++ {
		var wg sync.WaitGroup
		k := 1 + hook.Choose(2)
		for i := 0; i < k; i++ {
			id++
			wg.Add(1)
			switch hook.Choose(6) {
			case 5:
				// the handler is created on a goroutine started by compiled code
				regNew = append(regNew, id)
				me := id
				hook.GoCall(func() {
					h := func() {
						r := recover()
						hook.Ev("handler", me, r)
					}
					hook.Lock(&hmu)
					handlers[me%64] = h
					hook.Unlock(&hmu)
					wg.Done()
				})
			case 3:
				regNew = append(regNew, id)
				go register(hook.Spawn(), id, &wg)
			case 4:
				// only handlers of earlier rounds: their creators have exited
				if n := len(regOld); n > 0 {
					hook.Lock(&hmu)
					h := handlers[regOld[hook.Choose(n)]%64]
					hook.Unlock(&hmu)
					go useHandler(hook.Spawn(), id, h, &wg)
				} else {
					regNew = append(regNew, id)
					go register(hook.Spawn(), id, &wg)
				}
			case 0:
				go named(hook.Spawn(), id, &wg)
			case 1:
				go func(tok int, id int) {
					hook.Start(tok)
					hook.Ev("literal", id, work(id))
					wg.Done()
					hook.Exit(tok)
				}(hook.Spawn(), id)
			case 2:
				me := id
				hook.GoCall(func() {
					hook.Ev("foreign", me, work(me))
					wg.Done()
				})
			}
		}
		hook.Ev("main", r, work(100+r))
		wg.Wait()
		regOld = append(regOld, regNew...)
		regNew = nil
	}
	hook.Ev("end", id)
}
