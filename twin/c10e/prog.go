package c10e

import (
	"time"

	"verif/hook"
)

// time-outs on the simulated clock: a producer sleeps before each value, the consumer waits
// with select + time.After. Producer delays are multiples of 10ms (at most 40ms), time-outs
// are 10k+3ms with k >= 1: at most 3 consecutive time-outs fit between two values, so a
// time-out (value time + 3n ms, n <= 3) and a value (multiple of 10ms) are never due at the
// same instant and the outcome is schedule independent.

func producer(tok int, out chan int, n int) {
	hook.Start(tok)
	for i := 0; i < n; i++ {
		d := time.Duration(10*(1+hook.Choose(4))) * time.Millisecond
		time.Sleep(d)
		out <- i
	}
	close(out)
	hook.Exit(tok)
}

func Main() {
	n := 1 + hook.Choose(5)
	out := make(chan int, hook.Choose(2))
	go producer(hook.Spawn(), out, n)
	got, timeouts := 0, 0
	start := time.Now()
loop:
	for {
		limit := time.Duration(10*(1+hook.Choose(4))+3) * time.Millisecond
		select {
		case v, ok := <-out:
			if !ok {
				break loop
			}
			hook.Ev("v", v)
			got++
		case <-time.After(limit):
			hook.Ev("timeout", int(limit/time.Millisecond))
			timeouts++
		}
		hook.Y()
	}
	tick := time.NewTicker(7 * time.Millisecond)
	k := 0
	for range tick.C {
		k++
		if k == 3 {
			tick.Stop()
			break
		}
	}
	hook.Ev("done", got, timeouts, int(time.Since(start)/time.Millisecond))
}
