package c10e

import _ "embed"

//go:embed prog.go
var Source string
