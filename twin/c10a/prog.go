package c10a

import (
	"sync"

	"verif/hook"
)

// fan-out / fan-in: determinate result (sum), schedule-dependent event order

func worker(tok int, id int, in chan int, out chan int, wg *sync.WaitGroup) {
	hook.Start(tok)
	s := 0
	for v := range in {
		s += v * id
		hook.Y()
	}
	out <- s
	wg.Done()
	hook.Exit(tok)
}

func Main() {
	nw := 2 + hook.Choose(3)
	n := 3 + hook.Choose(6)
	in := make(chan int, hook.Choose(3))
	out := make(chan int, nw)
	var wg sync.WaitGroup
	for i := 0; i < nw; i++ {
		wg.Add(1)
		go worker(hook.Spawn(), i+1, in, out, &wg)
	}
	total := 0
	for i := 0; i < n; i++ {
		in <- i
		total += i
	}
	close(in)
	wg.Wait()
	close(out)
	sum, cnt := 0, 0
	for s := range out {
		sum += s
		cnt++
	}
	hook.Ev("done", cnt, total, sum >= total)
}
