package c10b

import "verif/hook"

// pipeline (Kahn network): every stage is one goroutine with one input and one output, so
// every task's own event sequence is the same on every schedule. Channels of many element
// kinds exercise the per-kind send/receive code of the interpreter.

type pair struct {
	A int
	B string
}

func gen(tok int, n int, out chan int) {
	hook.Start(tok)
	for i := 0; i < n; i++ {
		out <- i*7 - 3
		hook.Y()
	}
	close(out)
	hook.Exit(tok)
}

func toInt8(tok int, in chan int, out chan int8) {
	hook.Start(tok)
	for v := range in {
		hook.Ev("i8", v)
		out <- int8(v)
	}
	close(out)
	hook.Exit(tok)
}

func toU16(tok int, in chan int8, out chan uint16) {
	hook.Start(tok)
	for {
		v, ok := <-in
		if !ok {
			break
		}
		hook.Ev("u16", v)
		out <- uint16(int(v) + 300)
	}
	close(out)
	hook.Exit(tok)
}

func toF64(tok int, in chan uint16, out chan float64) {
	hook.Start(tok)
	for v := range in {
		hook.Ev("f64", v)
		hook.Y()
		out <- float64(v) / 4
	}
	close(out)
	hook.Exit(tok)
}

func toStr(tok int, in chan float64, out chan string) {
	hook.Start(tok)
	for v := range in {
		hook.Ev("str", v)
		s := "a"
		if v > 75 {
			s = "bb"
		}
		out <- s
	}
	close(out)
	hook.Exit(tok)
}

func toBool(tok int, in chan string, out chan bool) {
	hook.Start(tok)
	for v := range in {
		hook.Ev("bool", v)
		out <- len(v) == 2
	}
	close(out)
	hook.Exit(tok)
}

func toPair(tok int, in chan bool, out chan pair) {
	hook.Start(tok)
	i := 0
	for v := range in {
		hook.Ev("pair", v)
		i++
		if v {
			out <- pair{i, "t"}
		} else {
			out <- pair{-i, "f"}
		}
	}
	close(out)
	hook.Exit(tok)
}

func toIface(tok int, in chan pair, out chan interface{}) {
	hook.Start(tok)
	for v := range in {
		hook.Ev("iface", v.A, v.B)
		if v.A%2 == 0 {
			out <- v.A
		} else {
			out <- v.B
		}
	}
	close(out)
	hook.Exit(tok)
}

func toChan(tok int, in chan interface{}, out chan chan int) {
	hook.Start(tok)
	for v := range in {
		c := make(chan int, 1)
		switch x := v.(type) {
		case int:
			hook.Ev("chan-int", x)
			c <- x
		case string:
			hook.Ev("chan-str", x)
			c <- len(x)
		}
		out <- c
	}
	close(out)
	hook.Exit(tok)
}

func Main() {
	n := 1 + hook.Choose(6)
	c0 := make(chan int, hook.Choose(3))
	c1 := make(chan int8, hook.Choose(3))
	c2 := make(chan uint16, hook.Choose(3))
	c3 := make(chan float64, hook.Choose(3))
	c4 := make(chan string, hook.Choose(3))
	c5 := make(chan bool, hook.Choose(3))
	c6 := make(chan pair, hook.Choose(3))
	c7 := make(chan interface{}, hook.Choose(3))
	c8 := make(chan chan int, hook.Choose(3))
	go gen(hook.Spawn(), n, c0)
	go toInt8(hook.Spawn(), c0, c1)
	go toU16(hook.Spawn(), c1, c2)
	go toF64(hook.Spawn(), c2, c3)
	go toStr(hook.Spawn(), c3, c4)
	go toBool(hook.Spawn(), c4, c5)
	go toPair(hook.Spawn(), c5, c6)
	go toIface(hook.Spawn(), c6, c7)
	go toChan(hook.Spawn(), c7, c8)
	sum := 0
	for c := range c8 {
		v := <-c
		hook.Ev("out", v)
		sum += v
	}
	hook.Ev("sum", sum)
}
