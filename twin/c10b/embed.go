package c10b

import _ "embed"

//go:embed prog.go
var Source string
